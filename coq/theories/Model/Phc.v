(* Executable model of utils/phc/phc.go: ParsePHC, the parser of stored
   password-hash strings "$argon2id$v=19$m=..,t=..,p=..,l=..$salt$hash".

   Everything the Go function calls is modelled down to bytes:
     strings.TrimSpace / TrimPrefix / Split / SplitSeq / SplitN / HasPrefix,
     strconv.Atoi, strconv.ParseUint(s, 10, bits),
     encoding/base64 RawStdEncoding.Decode(dst, src)   -- the one operation that can panic:
       it writes into the caller's buffer and indexes past its end when the
       decoded data does not fit (b64_decode_into below, explicit Panic).

   ParsePHC as it is now in the repository decodes the salt with DecodeString
   (buffer of DecodedLen(len(src)) bytes) and then demands 16 bytes; the earlier
   code decoded straight into a [16]byte array (phc_parse_fixed16 keeps that
   shape: it is what Proofs/Phc.v refutes). *)
From Reservoir Require Import Base.Prelude.

(* ---------- strings helpers ---------- *)

Definition nilb {A} (l : list A) : bool := match l with [] => true | _ => false end.

Fixpoint has_prefix (p s : str) : bool :=
  match p, s with
  | [], _ => true
  | x :: p', y :: s' => (x =? y) && has_prefix p' s'
  | _ :: _, [] => false
  end.

(* strings.Split(s, sep) for a one-byte separator: always (number of separators + 1) parts *)
Fixpoint split_on (sep : Z) (s : str) : list str :=
  match s with
  | [] => [[]]
  | c :: r =>
      if c =? sep then [] :: split_on sep r
      else match split_on sep r with
           | p :: ps => (c :: p) :: ps
           | [] => [[c]]              (* unreachable: split_on never returns [] *)
           end
  end.

(* strings.SplitN(seg, "=", 2): Some (before, after) the first '=', None when there is none *)
Fixpoint cut_at (sep : Z) (s : str) : option (str * str) :=
  match s with
  | [] => None
  | c :: r =>
      if c =? sep then Some ([], r)
      else match cut_at sep r with
           | Some (a, b) => Some (c :: a, b)
           | None => None
           end
  end.

(* strings.TrimSpace: Unicode White_Space, ASCII bytes and the UTF-8 forms of
   U+0085 U+00A0 U+1680 U+2000..U+200A U+2028 U+2029 U+202F U+205F U+3000.
   ws_prefix_len s = byte length of a white-space rune at the head of s, 0 if none. *)
Definition is_ascii_space (c : Z) : bool :=
  (c =? 9) || (c =? 10) || (c =? 11) || (c =? 12) || (c =? 13) || (c =? 32).

Definition ws3 (a b c : Z) : bool :=
  ((a =? 225) && (b =? 154) && (c =? 128)) ||
  ((a =? 226) && (b =? 128) && (((128 <=? c) && (c <=? 138)) || (c =? 168) || (c =? 169) || (c =? 175))) ||
  ((a =? 226) && (b =? 129) && (c =? 159)) ||
  ((a =? 227) && (b =? 128) && (c =? 128)).

Definition ws2 (a b : Z) : bool := (a =? 194) && ((b =? 133) || (b =? 160)).

Definition ws_prefix_len (s : str) : nat :=
  match s with
  | [] => 0
  | a :: r =>
      if is_ascii_space a then 1
      else match r with
           | [] => 0
           | b :: r2 =>
               if ws2 a b then 2
               else match r2 with
                    | [] => 0
                    | c :: _ => if ws3 a b c then 3 else 0
                    end
           end
  end%nat.

(* the same looking from the end (s is given reversed), as utf8.DecodeLastRune does:
   it walks back over continuation bytes to the start byte and decodes from there *)
Definition ws_suffix_len (rs : str) : nat :=
  match rs with
  | [] => 0
  | z :: r =>
      if is_ascii_space z then 1
      else match r with
           | [] => 0
           | y :: r2 =>
               if ws2 y z then 2
               else match r2 with
                    | [] => 0
                    | x :: _ => if ws3 x y z then 3 else 0
                    end
           end
  end%nat.

Fixpoint trim_fuel (f : str -> nat) (n : nat) (s : str) : str :=
  match n with
  | O => s
  | S n' => match f s with
            | O => s
            | k => trim_fuel f n' (skipn k s)
            end
  end.

Definition trim_left (s : str) : str := trim_fuel ws_prefix_len (length s) s.
Definition trim_right (s : str) : str := rev (trim_fuel ws_suffix_len (length s) (rev s)).
Definition trim_space (s : str) : str := trim_right (trim_left s).

(* ---------- strconv ---------- *)

(* strconv.ParseUint(s, 10, bits): digits only, no sign, no underscores, value < 2^bits *)
Definition parse_uint (bits : Z) (s : str) : option Z :=
  if negb (nilb s) && all_digits s then
    let v := dec_value s in if v <? 2 ^ bits then Some v else None
  else None.

(* strconv.Atoi on a 64-bit platform: optional sign, digits, int64 range *)
Definition atoi (s : str) : option Z :=
  let '(neg, d) := match s with
                   | c :: r => if c =? 43 then (false, r) else if c =? 45 then (true, r) else (false, s)
                   | [] => (false, s)
                   end in
  if negb (nilb d) && all_digits d then
    let v := dec_value d in
    if neg then (if v <=? 2 ^ 63 then Some (- v) else None)
    else (if v <=? 2 ^ 63 - 1 then Some v else None)
  else None.

(* ---------- encoding/base64, RawStdEncoding (no padding, not strict) ---------- *)

Definition b64val (c : Z) : option Z :=
  if is_upper c then Some (c - 65)
  else if is_lower c then Some (c - 97 + 26)
  else if is_digit c then Some (c - 48 + 52)
  else if c =? 43 then Some 62
  else if c =? 47 then Some 63
  else None.

(* Encoding.Decode(dst, src) with len(dst) = cap.  pend: the sextets of the
   quantum being read (at most 3), out: bytes written so far, reversed.
   '\r' and '\n' are skipped; any other byte outside the alphabet is a
   CorruptInputError; a quantum is written when complete -- dst[n+2] first,
   which is the index that panics when the buffer is too small. *)
Fixpoint b64_go (cap : Z) (src : str) (pend : list Z) (out : str) : res str :=
  match src with
  | [] =>
      match pend with
      | [] => Ok (rev out)
      | [_] => Err
      | [a; b] =>
          if zlen out + 1 <=? cap then Ok (rev ((a * 4 + b / 16) :: out)) else Panic
      | [a; b; c] =>
          if zlen out + 2 <=? cap
          then Ok (rev (((b mod 16) * 16 + c / 4) :: (a * 4 + b / 16) :: out))
          else Panic
      | _ => Err
      end
  | ch :: r =>
      match b64val ch with
      | Some v =>
          match pend with
          | [a; b; c] =>
              if zlen out + 3 <=? cap
              then b64_go cap r [] (((c mod 4) * 64 + v) :: ((b mod 16) * 16 + c / 4) :: (a * 4 + b / 16) :: out)
              else Panic
          | _ => b64_go cap r (pend ++ [v]) out
          end
      | None =>
          if (ch =? 10) || (ch =? 13) then b64_go cap r pend out else Err
      end
  end.

Definition b64_decode_into (cap : Z) (src : str) : res str := b64_go cap src [] [].

(* RawStdEncoding.DecodedLen(n) = n * 6 / 8 *)
Definition b64_decoded_len (n : Z) : Z := n * 6 / 8.

(* Encoding.DecodeString: a buffer of DecodedLen(len(s)) bytes *)
Definition b64_decode_string (s : str) : res str := b64_decode_into (b64_decoded_len (zlen s)) s.

(* ---------- ParsePHC ---------- *)

Record phc := {
  p_version : Z; p_mem : Z; p_time : Z; p_threads : Z; p_keylen : Z;
  p_salt : str; p_hash : str
}.

Record params := { pm : Z; pt : Z; pp : Z; pl : Z }.

(* the loop over strings.SplitSeq(paramsPart, ","): later duplicates win, unknown keys are ignored,
   a segment without '=' or a bad number is an error *)
Fixpoint parse_params (segs : list str) (acc : params) : option params :=
  match segs with
  | [] => Some acc
  | seg :: r =>
      if nilb seg then parse_params r acc
      else match cut_at 61 seg with
           | None => None
           | Some (k, v) =>
               if str_eqb k [109] then
                 match parse_uint 32 v with
                 | Some n => parse_params r {| pm := n; pt := pt acc; pp := pp acc; pl := pl acc |}
                 | None => None end
               else if str_eqb k [116] then
                 match parse_uint 32 v with
                 | Some n => parse_params r {| pm := pm acc; pt := n; pp := pp acc; pl := pl acc |}
                 | None => None end
               else if str_eqb k [112] then
                 match parse_uint 8 v with
                 | Some n => parse_params r {| pm := pm acc; pt := pt acc; pp := n; pl := pl acc |}
                 | None => None end
               else if str_eqb k [108] then
                 match parse_uint 32 v with
                 | Some n => parse_params r {| pm := pm acc; pt := pt acc; pp := pp acc; pl := n |}
                 | None => None end
               else parse_params r acc
           end
  end.

Definition s_argon2id : str := [97;114;103;111;110;50;105;100].

(* salt_decode: how the salt field is turned into bytes *)
Definition phc_parse_with (salt_decode : str -> res str) (s0 : str) : res phc :=
  let s := trim_space s0 in
  if nilb s then Err else
  let s := match s with c :: r => if c =? 36 then r else s | [] => s end in
  match split_on 36 s with
  | [id; ver; par; salt; hash] =>
      if negb (str_eqb id s_argon2id) then Err else
      if negb (has_prefix [118;61] ver) then Err else
      match atoi (skipn 2 ver) with
      | None => Err
      | Some version =>
          if nilb par then Err else
          match parse_params (split_on 44 par) {| pm := 0; pt := 0; pp := 0; pl := 0 |} with
          | None => Err
          | Some pr =>
              if (pm pr =? 0) || (pt pr =? 0) || (pp pr =? 0) then Err else
              match salt_decode salt with
              | Panic => Panic
              | Err => Err
              | Ok sb =>
                  if negb (zlen sb =? 16) then Err else
                  match b64_decode_string hash with
                  | Panic => Panic
                  | Err => Err
                  | Ok hb =>
                      if nilb hb then Err else
                      if negb (pl pr =? 0) && negb (pl pr =? zlen hb) then Err else
                      Ok {| p_version := version; p_mem := pm pr; p_time := pt pr; p_threads := pp pr;
                            p_keylen := if pl pr =? 0 then zlen hb else pl pr;
                            p_salt := sb; p_hash := hb |}
                  end
              end
          end
      end
  | _ => Err
  end.

(* the code as it is: salt through DecodeString, then the 16-byte test *)
Definition phc_parse (s : str) : res phc := phc_parse_with b64_decode_string s.

(* the earlier code: base64.RawStdEncoding.Decode(salt[:], ...) into a [16]byte array *)
Definition phc_parse_fixed16 (s : str) : res phc := phc_parse_with (b64_decode_into 16) s.
