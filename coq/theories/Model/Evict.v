(* Executable model of cache/cache_janitor.go (evict, ensureCacheSize,
   cleanExpiredEntries, the ticker loop) and of the store-triggered eviction in
   cache/memory_cache.go (cacheInternal) and cache/file_cache.go (Cache).

   Time.  Every stored instant is an integer number of milliseconds relative to
   the instant at which the operation under consideration reads time.Now():
   [e_age] = now - LastAccess, [e_exp] = Expires - now.  Go computes
   now.Sub(LastAccess).Milliseconds(); the harness sets LastAccess to whole
   millisecond offsets from one base instant, so the time that elapses between
   the base instant and the real time.Now() adds the same constant to every
   priority (Proofs.Evict.evict_loop_shift: the outcome is invariant under it).

   Nondeterminism.  The candidates are collected from a Go map (random order)
   and sorted by an unstable sort: the model takes the resulting order [cands]
   as an input constrained only to be a priority-descending permutation of the
   population.  TryLock failures are an input too: [held] is the list of lock
   shards that another party (or, for the memory backend, the storing caller
   itself) holds while the janitor code runs. *)
From Coq Require Import Floats.SpecFloat.
From Reservoir Require Import Base.Prelude.

Definition MiB : Z := 1048576.

Record entry := mkE {
  e_key : Z;      (* identity of the cache key *)
  e_shard : Z;    (* index of the lock shard getLock maps the key to *)
  e_size : Z;     (* EntryMetadata.Size *)
  e_age : Z;      (* ms since LastAccess *)
  e_exp : Z       (* Expires - now, ms; the entry is expired iff < 0 (Expires.Before(now)) *)
}.

Definition zmem (x : Z) (l : list Z) : bool := existsb (Z.eqb x) l.

(* priority := timeSinceAccess + (meta.Size / bytesize.UnitM) * 100
   Go int64 division truncates (Z.quot).  No wrap-around is possible: Size <
   2^63 gives a weight below 2^50, a Duration in ms is below 2^44. *)
Definition priority (e : entry) : Z := e_age e + 100 * Z.quot (e_size e) MiB.

Definition is_held (held : list Z) (e : entry) : bool := zmem (e_shard e) held.

(* --- targetSize := int64(float64(maxCacheBytes) * 0.8) in IEEE binary64 ----- *)
Definition f64_prec : Z := 53.
Definition f64_emax : Z := 1024.
(* float64(z): round to nearest even *)
Definition f64_of_Z (z : Z) : spec_float := binary_normalize f64_prec f64_emax z 0 false.
(* the constant 0.8 = 0x3FE999999999999A = 7205759403792794 * 2^-53 *)
Definition f64_08 : spec_float := S754_finite false 7205759403792794 (-53).
(* int64(f): truncation toward zero (values outside int64 do not occur below 2^63) *)
Definition f64_trunc (f : spec_float) : Z :=
  match f with
  | S754_zero _ => 0
  | S754_finite s m e =>
      let v := if 0 <=? e then Zpos m * 2 ^ e else Z.quot (Zpos m) (2 ^ (- e)) in
      if s then - v else v
  | _ => min_int64
  end.
Definition evict_target (maxb : Z) : Z :=
  f64_trunc (SFmul f64_prec f64_emax (f64_of_Z maxb) f64_08).

(* --- the eviction loop over the sorted candidates ------------------------------
   for _, c := range candidates {
       if getCacheSize() <= targetSize { break }
       if lock.TryLock() { removeEntry(c.key); lock.Unlock() } else { continue } }
   Returns the removed entries in removal order and the final byte counter. *)
Fixpoint evict_loop (target : Z) (held : list Z) (cands : list entry) (cur : Z) : list entry * Z :=
  match cands with
  | [] => ([], cur)
  | e :: rest =>
      if cur <=? target then ([], cur)
      else if is_held held e then evict_loop target held rest cur
      else let '(r, c) := evict_loop target held rest (cur - e_size e) in (e :: r, c)
  end.

(* One resolution of the sort: stable insertion sort, descending priority. *)
Fixpoint insert_desc (e : entry) (l : list entry) : list entry :=
  match l with
  | [] => [e]
  | x :: r => if priority x <? priority e then e :: l else x :: insert_desc e r
  end.
Definition sort_desc (l : list entry) : list entry := fold_right insert_desc [] l.

(* --- every outcome the ties, the map order and the skips permit ----------------
   [removed] (keys) is an allowed outcome of evict on population [pop] with byte
   counter [cur], target [target] and held shards [held] iff
   - it consists of distinct keys of entries that are not held,
   - no surviving unheld entry has a strictly higher priority than a removed one,
   - the counter reached the target unless every unheld entry was removed,
   - it is minimal for the stop rule: putting back one removed entry of least
     priority leaves the counter above the target. *)
Definition sum_sizes (l : list entry) : Z := fold_right (fun e a => e_size e + a) 0 l.

Fixpoint znodup (l : list Z) : bool :=
  match l with
  | [] => true
  | x :: r => negb (zmem x r) && znodup r
  end.

Definition evict_allowed (pop : list entry) (cur target : Z) (held : list Z) (removed : list Z) : bool :=
  let U := filter (fun e => negb (is_held held e)) pop in
  let R := filter (fun e => zmem (e_key e) removed) U in
  let K := filter (fun e => negb (zmem (e_key e) removed)) U in
  let final := cur - sum_sizes R in
  znodup removed
  && forallb (fun k => zmem k (map e_key U)) removed
  && forallb (fun r => forallb (fun u => priority u <=? priority r) K) R
  && ((final <=? target) || match K with [] => true | _ => false end)
  && match R with
     | [] => true
     | _ => existsb (fun l => forallb (fun r => priority l <=? priority r) R
                              && (target <? final + e_size l)) R
     end.

(* --- cleanExpiredEntries -------------------------------------------------------
   scan (snapshot of the map): keys whose Expires is before now;
   then for each of them: TryLock (skip when held), look the entry up again and
   leave it alone unless it is still there and still expired, remove.
   Operations of other goroutines can land between the scan and any removal:
   [batches] gives, for each scanned key in order, the operations that complete
   before the janitor gets that key's lock ([] when exhausted); the first batch
   therefore sits at the "janitor.afterScan" yield point.  Batches left over when
   the scan list is exhausted land after the last removal. *)
Definition expired (e : entry) : bool := e_exp e <? 0.

Inductive yop :=
| YStore (e : entry)          (* Cache(key, ...) : new entry object, possibly over an existing one *)
| YRefresh (k exp : Z)        (* UpdateMetadata(key, m.Expires = ...) : same entry, new expiry, LastAccess = now *)
| YDelete (k : Z).

Definition remove_key (k : Z) (l : list entry) : list entry :=
  filter (fun e => negb (e_key e =? k)) l.

Fixpoint lookup (k : Z) (l : list entry) : option entry :=
  match l with
  | [] => None
  | e :: r => if e_key e =? k then Some e else lookup k r
  end.

Definition apply_yop (l : list entry) (y : yop) : list entry :=
  match y with
  | YStore e => e :: remove_key (e_key e) l
  | YRefresh k exp =>
      map (fun e => if e_key e =? k then mkE (e_key e) (e_shard e) (e_size e) 0 exp else e) l
  | YDelete k => remove_key k l
  end.
Definition apply_yops (l : list entry) (ys : list yop) : list entry := fold_left apply_yop ys l.

(* keys (with their shard) the scan selects, in scan order *)
Definition scan_expired (l : list entry) : list (Z * Z) :=
  map (fun e => (e_key e, e_shard e)) (filter expired l).

(* one iteration of the removal loop for scanned key k: new map and what was removed *)
Definition clean_one (held : list Z) (l : list entry) (ks : Z * Z) : list entry * list entry :=
  let '(k, sh) := ks in
  if zmem sh held then (l, [])
  else match lookup k l with
       | Some e => if expired e then (remove_key k l, [e]) else (l, [])
       | None => (l, [])
       end.

(* returns the final map and the entries the janitor removed, in order *)
Fixpoint clean_loop (held : list Z) (scanned : list (Z * Z)) (batches : list (list yop))
                    (l : list entry) : list entry * list entry :=
  match scanned with
  | [] => (apply_yops l (concat batches), [])      (* whatever else lands before the call returns *)
  | ks :: rest =>
      let l1 := apply_yops l (hd [] batches) in
      let '(l2, r) := clean_one held l1 ks in
      let '(l3, rs) := clean_loop held rest (tl batches) l2 in
      (l3, r ++ rs)
  end.

(* a whole cleanExpiredEntries call *)
Definition clean_expired_log (held : list Z) (batches : list (list yop)) (l : list entry)
  : list entry * list entry :=
  clean_loop held (scan_expired l) batches l.
Definition clean_expired (held : list Z) (batches : list (list yop)) (l : list entry) : list entry :=
  fst (clean_expired_log held batches l).

(* --- the stores and the janitor cycle over a whole cache state ------------------ *)
Inductive backend := Mem | File.

Record cstate := mkC {
  c_ents : list entry;     (* the entry map (distinct keys) *)
  c_bytes : Z;             (* byteSize counter *)
  c_cfgmax : Z;            (* cfg.Cache.MaxCacheSize as the janitor reads it *)
  c_stmax : Z;             (* maxCacheSize atomic the store path reads (set by the OnChange listener) *)
  c_memcap : Z;            (* memoryCap (memory backend) *)
  c_pending : list Z       (* limit changes fired but not yet delivered to the listener *)
}.

Definition set_ents (s : cstate) (l : list entry) (b : Z) : cstate :=
  mkC l b (c_cfgmax s) (c_stmax s) (c_memcap s) (c_pending s).

(* An evictor resolves the nondeterminism of one evict call: given limit, held
   shards, population and counter it returns the removed entries (None: the
   observation is not an allowed outcome). *)
Definition evictor := Z -> list Z -> list entry -> Z -> option (list entry).

(* deterministic evictor for a given resolution [ord] of map order + sort *)
Definition det_evictor (ord : list entry -> list entry) : evictor :=
  fun limit held ents cur => Some (fst (evict_loop (evict_target limit) held (ord ents) cur)).

Definition without (removed : list entry) (l : list entry) : list entry :=
  filter (fun e => negb (zmem (e_key e) (map e_key removed))) l.

Definition run_evict (ev : evictor) (limit : Z) (held : list Z) (s : cstate) : option cstate :=
  match ev limit held (c_ents s) (c_bytes s) with
  | Some removed => Some (set_ents s (without removed (c_ents s)) (c_bytes s - sum_sizes removed))
  | None => None
  end.

Definition store_limit (b : backend) (s : cstate) : Z :=
  match b with Mem => Z.min (c_stmax s) (c_memcap s) | File => c_stmax s end.

(* entries[key] = new ; counters: the replaced entry's bytes are released *)
Definition insert (s : cstate) (e : entry) : cstate :=
  let old := match lookup (e_key e) (c_ents s) with Some o => e_size o | None => 0 end in
  set_ents s (e :: remove_key (e_key e) (c_ents s)) (c_bytes s + e_size e - old).

(* Cache(key, body, expires): result state and whether the store succeeded *)
Definition store (ev : evictor) (b : backend) (held : list Z) (e : entry) (s : cstate)
  : option (cstate * bool) :=
  match b with
  | Mem =>
      (* the caller holds its own shard lock while evicting *)
      let limit := store_limit Mem s in
      if limit <=? c_bytes s then
        match run_evict ev limit (e_shard e :: held) s with
        | Some s1 =>
            if store_limit Mem s1 <=? c_bytes s1 then Some (s1, false)   (* ErrCacheMemoryExceeded *)
            else Some (insert s1 e, true)
        | None => None
        end
      else Some (insert s e, true)
  | File =>
      (* evicts before taking the shard lock; never refuses; a 0-byte body is an error *)
      let limit := store_limit File s in
      let after := if limit <=? c_bytes s then run_evict ev limit held s else Some s in
      match after with
      | Some s1 => if e_size e =? 0 then Some (s1, false) else Some (insert s1 e, true)
      | None => None
      end
  end.

(* ensureCacheSize *)
Definition ensure_size (ev : evictor) (held : list Z) (s : cstate) : option cstate :=
  if c_bytes s <? c_cfgmax s then Some s else run_evict ev (c_cfgmax s) held s.

(* one janitor cycle: cleanExpiredEntries ; ensureCacheSize *)
Definition clean_state (held : list Z) (batches : list (list yop)) (s : cstate) : cstate :=
  let l := clean_expired held batches (c_ents s) in
  (* counter: every yop and every removal keeps it equal to its own delta *)
  set_ents s l (c_bytes s + sum_sizes l - sum_sizes (c_ents s)).

Definition cycle (ev : evictor) (held : list Z) (batches : list (list yop)) (s : cstate) : option cstate :=
  ensure_size ev held (clean_state held batches s).

(* --- operations of a history ------------------------------------------------- *)
Inductive op :=
| OStore (e : entry) (held : list Z)             (* Cache of a body of e_size bytes; LastAccess/Expires as in e *)
| OTouch (k age : Z)                             (* Get(key): LastAccess moves *)
| ODelete (k : Z)
| OEvict (limit : Z) (held : list Z)             (* janitor.evict(limit) *)
| OCycle (held : list Z) (ys : list yop)         (* one tick; ys land at the scan/removal yield point *)
| OClean (held : list Z) (ys : list yop)         (* cleanExpiredEntries alone *)
| OSetLimit (n : Z)                              (* config update of max_cache_size: cfg changes, listener fired *)
| ODeliver (i : nat)                             (* the i-th pending listener call runs *)
| OSetMemCap (n : Z)
| OAdvance (d : Z).                              (* d ms pass *)

Definition touch (k age : Z) (l : list entry) : list entry :=
  map (fun e => if e_key e =? k then mkE (e_key e) (e_shard e) (e_size e) age (e_exp e) else e) l.

Definition advance (d : Z) (l : list entry) : list entry :=
  map (fun e => mkE (e_key e) (e_shard e) (e_size e) (e_age e + d) (e_exp e - d)) l.

Fixpoint remove_nth {A} (i : nat) (l : list A) : list A :=
  match i, l with
  | _, [] => []
  | O, _ :: r => r
  | S j, x :: r => x :: remove_nth j r
  end.

Definition batch0 (ys : list yop) : list (list yop) := match ys with [] => [] | _ => [ys] end.

Definition step (ev : evictor) (b : backend) (s : cstate) (o : op) : option (cstate * bool) :=
  match o with
  | OStore e held => store ev b held e s
  | OTouch k age =>
      Some (set_ents s (touch k age (c_ents s)) (c_bytes s),
            match lookup k (c_ents s) with Some _ => true | None => false end)
  | ODelete k =>
      match lookup k (c_ents s) with
      | Some e => Some (set_ents s (remove_key k (c_ents s)) (c_bytes s - e_size e), true)
      | None => Some (s, match b with Mem => false | File => true end)
      end
  | OEvict limit held => option_map (fun s1 => (s1, true)) (run_evict ev limit held s)
  | OCycle held ys => option_map (fun s1 => (s1, true)) (cycle ev held (batch0 ys) s)
  | OClean held ys => Some (clean_state held (batch0 ys) s, true)
  | OSetLimit n =>
      Some (mkC (c_ents s) (c_bytes s) n (c_stmax s) (c_memcap s) (c_pending s ++ [n]), true)
  | ODeliver i =>
      match nth_error (c_pending s) i with
      | Some n => Some (mkC (c_ents s) (c_bytes s) (c_cfgmax s) n (c_memcap s) (remove_nth i (c_pending s)), true)
      | None => Some (s, true)
      end
  | OSetMemCap n => Some (mkC (c_ents s) (c_bytes s) (c_cfgmax s) (c_stmax s) n (c_pending s), true)
  | OAdvance d => Some (set_ents s (advance d (c_ents s)) (c_bytes s), true)
  end.

Definition init_state (maxb memcap : Z) : cstate := mkC [] 0 maxb maxb memcap [].

(* --- the ticker loop: when do cycles run ---------------------------------------
   ticker := time.NewTicker(interval); select { <-ticker.C: cycle | d := <-intervalChanged:
   ticker.Reset(d) }.  State: current interval and the instant of the next tick.
   Reset with d <= 0 panics (the process dies). *)
Record jstate := mkJ { j_interval : Z; j_next : Z }.
Inductive jev := JTick | JInterval (at_ d : Z).     (* the next tick fires | a new interval is received at instant at_ *)

Definition jstep (s : jstate) (e : jev) : res jstate :=
  match e with
  | JTick => Ok (mkJ (j_interval s) (j_next s + j_interval s))
  | JInterval t d => if d <=? 0 then Panic else Ok (mkJ d (t + d))
  end.
