(* Executable model of the dashboard API's access control:
     webserver/middleware/harden.go        Harden        -> harden_blocks
     net/http ServeMux method patterns     (as registered by api.RegisterHandlers) -> mux
     webserver/api/api.go                  WrapHandler / EnsureAllowed -> api_step
     webserver/api/apitypes/context.go     CreateContext -> lookup
     webserver/auth/session.go             GetSession / CreateSession / Destroy / GC -> lookup, ECreate, EDelete, gc
     webserver/auth/creds.go               Authenticate
     webserver/api/auth/{login,logout,change-password}.go, endpoints/config (PATCH)

   Time is a Z of nanoseconds carried by the state and moved only by [EvAdvance];
   the implementation has no clock abstraction, the harness ages the session table instead.
   Password hashing is abstract: [H] is the type of well-formed stored hashes,
   [verify h pw] is PHC.VerifyArgon2id, [mkhash pw] is GenerateArgon2id; they are
   Section variables, so every theorem holds for every such triple. A stored hash
   string that ParsePHC rejects is [None]. Passwords and session ids are opaque
   tokens (Z); a negative password token is the empty string. *)
From Reservoir Require Import Base.Prelude.

(* ---------- requests ---------- *)

Inductive meth := GET | HEAD | POST | PUT | PATCH | DELETE | OPTIONS.

Definition meth_eqb (a b : meth) : bool :=
  match a, b with
  | GET, GET | HEAD, HEAD | POST, POST | PUT, PUT | PATCH, PATCH | DELETE, DELETE | OPTIONS, OPTIONS => true
  | _, _ => false
  end.

(* one entry of the route table: the mux pattern "METHOD path" and the RequiresAuth flag *)
Record route := { r_method : meth; r_path : str; r_auth : bool }.

Inductive body :=
| BNone                          (* no body / not JSON *)
| BLogin (user : str) (pw : Z)   (* {"username": user, "password": pw} *)
| BChange (cur new : Z)          (* {"current_password": cur, "new_password": new} *)
| BConfig (v : Z).               (* a valid configuration patch setting the probed property to v *)

Record request := {
  q_method : meth;
  q_path : str;
  q_cookie : option Z;           (* value of the reservoir.sid cookie, if any *)
  q_origin : str;                (* Origin header, [] when absent *)
  q_site : str;                  (* Sec-Fetch-Site header, [] when absent *)
  q_body : body;
  q_fresh : Z;                   (* the id CreateSession would draw (crypto/rand) *)
  q_hstatus : Z                  (* the status of a handler the model does not look into, if it is reached *)
}.

Definition emptyb {A} (l : list A) : bool := match l with [] => true | _ => false end.

(* ---------- Harden ---------- *)

Definition s_same_origin : str := [115;97;109;101;45;111;114;105;103;105;110].
Definition s_same_site : str := [115;97;109;101;45;115;105;116;101].
Definition s_none : str := [110;111;110;101].

(* isSame := origin == "" || site == "" || site == "same-origin" || site == "same-site";
   blocked when !isSame, or for OPTIONS with an Origin (CORS preflight) *)
Definition harden_blocks (m : meth) (origin site : str) : bool :=
  let is_same := emptyb origin || emptyb site || str_eqb site s_same_origin || str_eqb site s_same_site in
  negb is_same || (meth_eqb m OPTIONS && negb (emptyb origin)).

(* ---------- ServeMux with "METHOD /path" patterns (exact paths) ---------- *)

Inductive mux_result := MFound (r : route) | MNoMethod | MNotFound.

(* a GET pattern also serves HEAD *)
Definition meth_matches (pat m : meth) : bool :=
  meth_eqb pat m || (meth_eqb pat GET && meth_eqb m HEAD).

Definition route_matches (m : meth) (p : str) (r : route) : bool :=
  meth_matches (r_method r) m && str_eqb (r_path r) p.

Definition mux (table : list route) (m : meth) (p : str) : mux_result :=
  match find (route_matches m p) table with
  | Some r => MFound r
  | None => if existsb (fun r => str_eqb (r_path r) p) table then MNoMethod else MNotFound
  end.

(* ---------- which handler a pattern leads to ---------- *)

Definition p_login : str := [47;97;112;105;47;97;117;116;104;47;108;111;103;105;110].
Definition p_logout : str := [47;97;112;105;47;97;117;116;104;47;108;111;103;111;117;116].
Definition p_change : str := [47;97;112;105;47;97;117;116;104;47;99;104;97;110;103;101;45;112;97;115;115;119;111;114;100].
Definition p_config : str := [47;97;112;105;47;99;111;110;102;105;103].

Inductive hkind := HLogin | HLogout | HChange | HConfigPatch | HOther.

Definition kind_of (r : route) : hkind :=
  match r_method r with
  | POST => if str_eqb (r_path r) p_login then HLogin
            else if str_eqb (r_path r) p_logout then HLogout else HOther
  | PATCH => if str_eqb (r_path r) p_change then HChange
             else if str_eqb (r_path r) p_config then HConfigPatch else HOther
  | _ => HOther
  end.

(* the one route the property exempts *)
Definition is_login_route (r : route) : bool :=
  meth_eqb (r_method r) POST && str_eqb (r_path r) p_login.

(* the obligation re-checked on the regenerated table at every run *)
Definition routes_guarded (table : list route) : bool :=
  forallb (fun r => is_login_route r || r_auth r) table.

(* ---------- sessions ---------- *)

Definition lifetime : Z := 3600 * 1000000000.          (* defaultLifetime = 1 h *)
Definition extend_threshold : Z := 600 * 1000000000.   (* extendThreshold = 10 min *)

(* session table: sid -> (user id, ExpiresAt) *)
Definition sessions := Z -> option (Z * Z).

Definition sess_set (s : sessions) (k : Z) (v : Z * Z) : sessions :=
  fun k' => if k' =? k then Some v else s k'.
Definition sess_del (s : sessions) (k : Z) : sessions :=
  fun k' => if k' =? k then None else s k'.

(* one pass of the GC ticker: delete when ExpiresAt.Before(now) *)
Definition sess_gc (now : Z) (s : sessions) : sessions :=
  fun k => match s k with
           | Some (u, e) => if e <? now then None else Some (u, e)
           | None => None
           end.

Section WithHash.
Variable H : Type.
Variable verify : H -> Z -> bool.
Variable mkhash : Z -> H.

Record user := { u_name : str; u_id : Z; u_hash : option H }.

Record state := {
  s_now : Z;
  s_sess : sessions;
  s_users : list user;
  s_cfg : Z
}.

Inductive effect :=
| ECreate (sid uid exp : Z)      (* CreateSession *)
| EDelete (sid : Z)              (* Session.Destroy *)
| EExtend (sid exp : Z)          (* GetSession's sliding extension *)
| ESetHash (uid : Z) (h : H)     (* UserStore.Save with a new password hash *)
| ESetCfg (v : Z)                (* config.UpdatePartialFromConfig *)
| EHandler (r : route).          (* the endpoint function of r was invoked *)

(* the request carries the cookie of a live session *)
Definition authorises (st : state) (c : option Z) : bool :=
  match c with
  | Some sid => match s_sess st sid with
                | Some (_, e) => s_now st <? e
                | None => false
                end
  | None => false
  end.

(* SessionFromRequest / GetSession (as repaired): unknown -> none; expired -> none and left
   alone; within the threshold of expiry -> ExpiresAt := now + lifetime *)
Definition lookup (st : state) (c : option Z) : option (Z * Z) * list effect :=
  match c with
  | None => (None, [])
  | Some sid =>
      match s_sess st sid with
      | None => (None, [])
      | Some (uid, e) =>
          if e <=? s_now st then (None, [])
          else if e - s_now st <=? extend_threshold
               then (Some (sid, uid), [EExtend sid (s_now st + lifetime)])
               else (Some (sid, uid), [])
      end
  end.

(* username column is COLLATE NOCASE (ASCII case folding) *)
Definition user_by_name (us : list user) (n : str) : option user :=
  find (fun u => str_eqb (lower_str (u_name u)) (lower_str n)) us.
Definition user_by_id (us : list user) (id : Z) : option user :=
  find (fun u => u_id u =? id) us.

(* what json.Decode into auth.Credentials yields *)
Definition login_creds (b : body) : option (str * Z) :=
  match b with
  | BNone => None
  | BLogin u p => Some (u, p)
  | BChange _ _ | BConfig _ => Some ([], -1)     (* a JSON object without the two fields *)
  end.

Definition handle (st : state) (r : route) (sess : option (Z * Z)) (q : request) : Z * list effect :=
  match kind_of r with
  | HLogin =>
      match login_creds (q_body q) with
      | None => (400, [])
      | Some (name, pw) =>
          match sess with
          | Some _ => (200, [])                         (* "Already Authenticated" *)
          | None =>
              match user_by_name (s_users st) name with
              | None => (401, [])
              | Some u =>
                  match u_hash u with
                  | None => (500, [])                   (* stored hash does not parse *)
                  | Some h =>
                      if verify h pw
                      then (200, [ECreate (q_fresh q) (u_id u) (s_now st + lifetime)])
                      else (401, [])
                  end
              end
          end
      end
  | HLogout =>
      match sess with
      | Some (sid, _) => (204, [EDelete sid])
      | None => (500, [])                               (* unreachable when the route requires auth *)
      end
  | HChange =>
      match q_body q, sess with
      | BChange cur new, Some (_, uid) =>
          if (cur <? 0) || (new <? 0) then (400, [])
          else match user_by_id (s_users st) uid with
               | None => (500, [])
               | Some u =>
                   match u_hash u with
                   | None => (500, [])
                   | Some h => if verify h cur then (204, [ESetHash uid (mkhash new)]) else (400, [])
                   end
               end
      | BChange _ _, None => (500, [])
      | _, _ => (400, [])
      end
  | HConfigPatch =>
      match q_body q with
      | BConfig v => (202, [ESetCfg v])
      | BNone => (400, [])
      | _ => (q_hstatus q, [])
      end
  | HOther => (q_hstatus q, [])
  end.

(* Harden, then the mux, then WrapHandler: context (session lookup), EnsureAllowed, endpoint *)
Definition api_step (table : list route) (st : state) (q : request) : Z * list effect :=
  if harden_blocks (q_method q) (q_origin q) (q_site q) then (403, [])
  else match mux table (q_method q) (q_path q) with
       | MNotFound => (404, [])
       | MNoMethod => (405, [])
       | MFound r =>
           let '(sess, e1) := lookup st (q_cookie q) in
           match sess with
           | None => if r_auth r then (401, e1)
                     else let '(code, e2) := handle st r sess q in (code, e1 ++ EHandler r :: e2)
           | Some _ => let '(code, e2) := handle st r sess q in (code, e1 ++ EHandler r :: e2)
           end
       end.

Definition set_hash (us : list user) (uid : Z) (h : option H) : list user :=
  map (fun u => if u_id u =? uid then {| u_name := u_name u; u_id := u_id u; u_hash := h |} else u) us.

Definition apply_effect (st : state) (e : effect) : state :=
  match e with
  | ECreate sid uid exp =>
      {| s_now := s_now st; s_sess := sess_set (s_sess st) sid (uid, exp); s_users := s_users st; s_cfg := s_cfg st |}
  | EDelete sid =>
      {| s_now := s_now st; s_sess := sess_del (s_sess st) sid; s_users := s_users st; s_cfg := s_cfg st |}
  | EExtend sid exp =>
      match s_sess st sid with
      | Some (uid, _) =>
          {| s_now := s_now st; s_sess := sess_set (s_sess st) sid (uid, exp); s_users := s_users st; s_cfg := s_cfg st |}
      | None => st
      end
  | ESetHash uid h =>
      {| s_now := s_now st; s_sess := s_sess st; s_users := set_hash (s_users st) uid (Some h); s_cfg := s_cfg st |}
  | ESetCfg v =>
      {| s_now := s_now st; s_sess := s_sess st; s_users := s_users st; s_cfg := v |}
  | EHandler _ => st
  end.

Definition apply_effects (st : state) (es : list effect) : state := fold_left apply_effect es st.

(* ---------- histories ---------- *)

Inductive event :=
| EvReq (q : request)
| EvAdvance (d : Z)                      (* the clock moves forward by d >= 0 *)
| EvGC                                   (* the GC ticker fires *)
| EvSetHash (uid : Z) (h : option H).    (* the stored hash is changed behind the API's back *)

(* what a client sees of one exchange: status, and the session id of a Set-Cookie if one was issued *)
Definition created (es : list effect) : option Z :=
  match find (fun e => match e with ECreate _ _ _ => true | _ => false end) es with
  | Some (ECreate sid _ _) => Some sid
  | _ => None
  end.

Record exch := { x_req : request; x_status : Z; x_new : option Z; x_effects : list effect }.

Inductive obs :=
| OReq (x : exch)
| OAdvance (d : Z)
| OGC
| OSetHash.

Definition step (table : list route) (st : state) (ev : event) : state * obs :=
  match ev with
  | EvReq q =>
      let '(code, es) := api_step table st q in
      (apply_effects st es, OReq {| x_req := q; x_status := code; x_new := created es; x_effects := es |})
  | EvAdvance d =>
      ({| s_now := s_now st + Z.max 0 d; s_sess := s_sess st; s_users := s_users st; s_cfg := s_cfg st |}, OAdvance d)
  | EvGC =>
      ({| s_now := s_now st; s_sess := sess_gc (s_now st) (s_sess st); s_users := s_users st; s_cfg := s_cfg st |}, OGC)
  | EvSetHash uid h =>
      ({| s_now := s_now st; s_sess := s_sess st; s_users := set_hash (s_users st) uid h; s_cfg := s_cfg st |}, OSetHash)
  end.

(* the state after a history and everything observed on the way (oldest first) *)
Fixpoint run (table : list route) (st : state) (evs : list event) : state * list obs :=
  match evs with
  | [] => (st, [])
  | ev :: r => let '(st1, o) := step table st ev in
               let '(st2, os) := run table st1 r in (st2, o :: os)
  end.

(* ---------- the life of one session id, read off the observable trace ---------- *)

(* Written from the property statement: a session id is live from the successful login that
   issued it until a logout with it is accepted or until it is presented at or after its
   expiry; each accepted presentation within the threshold of expiry moves the expiry to
   now + lifetime (the sliding rule).  Nothing else matters: not the GC, not other
   session ids, not refused requests, not what the handlers do. *)
Inductive lstate := LNone | LLive (e : Z).

(* the request reaches a registered route (every such request presents its cookie to GetSession) *)
Definition touches (table : list route) (q : request) : bool :=
  negb (harden_blocks (q_method q) (q_origin q) (q_site q)) &&
  match mux table (q_method q) (q_path q) with MFound _ => true | _ => false end.

Definition is_logout_req (q : request) : bool :=
  meth_eqb (q_method q) POST && str_eqb (q_path q) p_logout.

Definition opt_is (o : option Z) (k : Z) : bool :=
  match o with Some k' => k' =? k | None => false end.

(* the session id is presented at time now: at or after its expiry it is dead for good,
   within the threshold of expiry it slides, otherwise nothing changes *)
Definition life_look (now : Z) (l : lstate) : lstate :=
  match l with
  | LLive e => if e <=? now then LNone
               else if e - now <=? extend_threshold then LLive (now + lifetime) else LLive e
  | LNone => LNone
  end.

Definition life_req (table : list route) (sid now : Z) (l : lstate) (x : exch) : lstate :=
  let q := x_req x in
  let presented := touches table q && opt_is (q_cookie q) sid in
  let l1 := if presented then life_look now l else l in
  if opt_is (x_new x) sid then LLive (now + lifetime)
  else if presented && is_logout_req q && (x_status x =? 204) then LNone
  else l1.

Fixpoint life (table : list route) (sid now : Z) (l : lstate) (tr : list obs) : Z * lstate :=
  match tr with
  | [] => (now, l)
  | OReq x :: r => life table sid now (life_req table sid now l x) r
  | OAdvance d :: r => life table sid (now + Z.max 0 d) l r
  | OGC :: r => life table sid now l r
  | OSetHash :: r => life table sid now l r
  end.

Definition life_authorises (now : Z) (l : lstate) : bool :=
  match l with LLive e => now <? e | LNone => false end.

(* ---------- the statement's notion of a cross-site request (DESIGN.md §5 C20) ---------- *)

(* the browser says so: Sec-Fetch-Site present and not same-origin / same-site / none,
   and the request carries Origin; or a CORS preflight *)
Definition cross_site (q : request) : bool :=
  negb (emptyb (q_origin q)) && negb (emptyb (q_site q)) &&
  negb (str_eqb (q_site q) s_same_origin) && negb (str_eqb (q_site q) s_same_site) &&
  negb (str_eqb (q_site q) s_none).

Definition preflight (q : request) : bool :=
  meth_eqb (q_method q) OPTIONS && negb (emptyb (q_origin q)).

(* a login attempt that presents the right password for a stored, well-formed hash *)
Definition login_ok (table : list route) (st : state) (q : request) : bool :=
  negb (harden_blocks (q_method q) (q_origin q) (q_site q)) &&
  match mux table (q_method q) (q_path q) with
  | MFound r =>
      is_login_route r &&
      match login_creds (q_body q) with
      | Some (name, pw) =>
          match user_by_name (s_users st) name with
          | Some u => match u_hash u with Some h => verify h pw | None => false end
          | None => false
          end
      | None => false
      end
  | _ => false
  end.

End WithHash.

Arguments ECreate {H}. Arguments EDelete {H}. Arguments EExtend {H}. Arguments ESetHash {H}.
Arguments ESetCfg {H}. Arguments EHandler {H}.
Arguments EvReq {H}. Arguments EvAdvance {H}. Arguments EvGC {H}. Arguments EvSetHash {H}.
Arguments OReq {H}. Arguments OAdvance {H}. Arguments OGC {H}. Arguments OSetHash {H}.
