(* Executable model of the configuration transaction of reservoir, as it is after the C18 fixes:

     config/update.go     UpdatePartialFromConfig, setPropsFromMapRecursive
     config/verify.go     Config.verify (both views), verifyListenAddress
     config/*_config.go   the per-section verify(view) methods
     config/config.go     persist (temporary file + rename), load, LoadOrDefault   -- at value level
     config/config_prop.go  Stage / CommitStaged / DiscardStaged / pending(view)   -- Model/ConfigProp.v

   and of the code that consumes the settings (written from the consumers, not from verify):

     main.go              startProxy, startWebServer
     proxy/proxy.go       NewProxy
     cache/*_cache.go     make([]sync.RWMutex, shardCount)
     cache/helpers.go     getLock: locks[val % uint32(len(locks))]
     cache/cache_janitor.go  time.NewTicker(interval), ticker.Reset(newInterval)

   A configuration is described by a field table (json path, value kind, restart flag, default)
   that is regenerated from the source on every run (coq/gen/ConfigFields.v is the committed
   snapshot); everything here is generic in the table. *)
From Coq Require Import String Ascii.
From Reservoir Require Import Base.Prelude Model.ByteSize Model.ConfigProp.
Open Scope Z_scope.

(* byte strings from Coq string literals (only used for the names of settings) *)
Definition bs (s : string) : str := map (fun a => Z.of_N (N_of_ascii a)) (list_ascii_of_string s).

(* ---------------------------------------------------------------------- *)
(* paths and the field table                                                *)

Definition path := list str.   (* json tags from the root of config.Config *)

Definition path_eqb (a b : path) : bool := list_eqb str_eqb a b.

(* strip a b = Some r  iff  b = a ++ r *)
Fixpoint strip (a b : path) : option path :=
  match a, b with
  | [], _ => Some b
  | x :: a', y :: b' => if str_eqb x y then strip a' b' else None
  | _ :: _, [] => None
  end.

Record field := { f_path : path; f_kind : fkind; f_restart : bool; f_default : fval }.
Definition table := list field.

(* the struct field with this path that is a ConfigProp: first match in declaration order *)
Fixpoint find_from (i : nat) (tbl : table) (p : path) : option (nat * field) :=
  match tbl with
  | [] => None
  | f :: r => if path_eqb (f_path f) p then Some (i, f) else find_from (S i) r p
  end.
Definition find_field (tbl : table) (p : path) : option (nat * field) := find_from 0 tbl p.

(* p names a section (a nested struct): some property lies strictly below it *)
Definition is_section (tbl : table) (p : path) : bool :=
  existsb (fun f => match strip p (f_path f) with Some (_ :: _) => true | _ => false end) tbl.

Definition defaults (tbl : table) : list fval := map f_default tbl.

Definition kind_of_val (k : fkind) (v : fval) : bool :=
  match k, v with
  | KStr, VS _ | KBool, VB _ | KInt, VZ _ | KSize, VZ _ | KDur, VZ _ | KLevel, VZ _ => true
  | _, _ => false
  end.

(* structural sanity of a table: paths non-empty, pairwise distinct, none a prefix of another
   (a ConfigProp has no settings inside it), defaults of the right shape *)
Definition table_ok (tbl : table) : bool :=
  forallb (fun f => match f_path f with [] => false | _ => true end) tbl &&
  forallb (fun f => kind_of_val (f_kind f) (f_default f)) tbl &&
  (fix go (l : table) : bool :=
     match l with
     | [] => true
     | f :: r => forallb (fun g => match strip (f_path f) (f_path g), strip (f_path g) (f_path f) with
                                   | None, None => true | _, _ => false end) r && go r
     end) tbl.

(* ---------------------------------------------------------------------- *)
(* update documents: the tree json.Unmarshal builds in a map[string]any.    *)
(* JNum z = a number that json.Marshal prints as the integer literal z (the *)
(* shortest digits that give the float64 back, no fraction, no exponent),   *)
(* JFrac = any other number, JArr = any array.                              *)
(* The entries of an object are listed in the order Go's map iteration      *)
(* visits them: every theorem quantifies over all documents, hence over all *)
(* orders.                                                                  *)

Inductive json :=
| JNull | JBool (b : bool) | JNum (z : Z) | JFrac | JStr (s : str) | JArr | JObj (m : jmap)
with jmap := MNil | MCons (k : str) (v : json) (m : jmap).

Fixpoint jfind (k : str) (m : jmap) : option json :=
  match m with
  | MNil => None
  | MCons k' v r => if str_eqb k k' then Some v else jfind k r
  end.

Fixpoint jkeys (m : jmap) : list str :=
  match m with MNil => [] | MCons k _ r => k :: jkeys r end.

(* the value a document gives for the setting at path p, if it addresses it *)
Fixpoint lookup_path (m : jmap) (p : path) : option json :=
  match p with
  | [] => None
  | k :: p' =>
      match p' with
      | [] => jfind k m
      | _ => match jfind k m with Some (JObj m') => lookup_path m' p' | _ => None end
      end
  end.

(* a Go map has no duplicate keys, at any level *)
Fixpoint nodup_str (l : list str) : bool :=
  match l with [] => true | x :: r => negb (existsb (str_eqb x) r) && nodup_str r end.
Fixpoint wf_json (j : json) : bool :=
  match j with JObj m => wf_jmap m | _ => true end
with wf_jmap (m : jmap) : bool :=
  match m with MNil => true | MCons k v r => negb (existsb (str_eqb k) (jkeys r)) && wf_json v && wf_jmap r end.

(* ---------------------------------------------------------------------- *)
Section Txn.
(* library oracles (validated by the harness on every run, see the manifest note):
   time.ParseDuration, slog.Level.UnmarshalJSON on the text of a JSON string,
   and "net.SplitHostPort(a) succeeds and net.LookupPort("tcp", port) knows the port" *)
Variable lib_dur : str -> option Z.
Variable lib_level : str -> option Z.
Variable addr_ok : str -> bool.

(* UnmarshalJSONStaged: json.Marshal(value) then json.Unmarshal into a T.
   JSON null leaves a plain Go value at its zero value without an error; the types with their
   own UnmarshalJSON (ByteSize, Duration, slog.Level) expect a JSON string. *)
Definition decode (k : fkind) (j : json) : res fval :=
  match k, j with
  | KStr, JStr s => Ok (VS s)
  | KStr, JNull => Ok (VS [])
  | KBool, JBool b => Ok (VB b)
  | KBool, JNull => Ok (VB false)
  | KInt, JNum z => if in_int64 z then Ok (VZ z) else Err
  | KInt, JNull => Ok (VZ 0)
  | KSize, JStr s => match bs_parse s with Ok n => Ok (VZ n) | Err => Err | Panic => Panic end
  | KDur, JStr s => match lib_dur s with Some z => Ok (VZ z) | None => Err end
  | KLevel, JStr s => match lib_level s with Some z => Ok (VZ z) | None => Err end
  | _, _ => Err
  end.

(* setPropsFromMapRecursive: what was staged (also when it fails) and how it ended *)
Inductive wres := WOk | WErr | WPanic.

Fixpoint walk (tbl : table) (pre : path) (m : jmap) {struct m} : list (nat * fval) * wres :=
  match m with
  | MNil => ([], WOk)
  | MCons k v rest =>
      let p := pre ++ [k] in
      match find_field tbl p with
      | Some (i, f) =>                       (* a ConfigProp takes the value whatever its shape *)
          match decode (f_kind f) v with
          | Ok x => let '(l, r) := walk tbl pre rest in ((i, x) :: l, r)
          | Err => ([], WErr)
          | Panic => ([], WPanic)
          end
      | None =>
          if is_section tbl p then
            match v with
            | JObj m' =>                     (* a section is descended into *)
                let '(l1, r1) := walk tbl p m' in
                match r1 with
                | WOk => let '(l2, r2) := walk tbl pre rest in (l1 ++ l2, r2)
                | _ => (l1, r1)
                end
            | _ => walk tbl pre rest         (* a section given a non-object: ignored *)
            end
          else walk tbl pre rest             (* "Config property not found": warning, ignored *)
      end
  end.

(* ---------------------------------------------------------------------- *)
(* the names the hand-written part of the model knows                       *)

Definition p_proxy_listen : path := [bs "proxy"; bs "listen"].
Definition p_ca_cert : path := [bs "proxy"; bs "ca_cert"].
Definition p_ca_key : path := [bs "proxy"; bs "ca_key"].
Definition p_upstream_https : path := [bs "proxy"; bs "upstream_default_https"].
Definition p_retry_416 : path := [bs "proxy"; bs "retry_on_range_416"].
Definition p_retry_invalid : path := [bs "proxy"; bs "retry_on_invalid_range"].
Definition p_ignore_cc : path := [bs "proxy"; bs "cache_policy"; bs "ignore_cache_control"].
Definition p_default_max_age : path := [bs "proxy"; bs "cache_policy"; bs "default_max_age"].
Definition p_force_max_age : path := [bs "proxy"; bs "cache_policy"; bs "force_default_max_age"].
Definition p_web_listen : path := [bs "webserver"; bs "listen"].
Definition p_dash_disabled : path := [bs "webserver"; bs "dashboard_disabled"].
Definition p_api_disabled : path := [bs "webserver"; bs "api_disabled"].
Definition p_max_cache_size : path := [bs "cache"; bs "max_cache_size"].
Definition p_cache_type : path := [bs "cache"; bs "type"].
Definition p_cleanup_interval : path := [bs "cache"; bs "cleanup_interval"].
Definition p_lock_shards : path := [bs "cache"; bs "lock_shards"].
Definition p_cache_dir : path := [bs "cache"; bs "file"; bs "dir"].
Definition p_mem_percent : path := [bs "cache"; bs "memory"; bs "memory_budget_percent"].
Definition p_log_level : path := [bs "logging"; bs "level"].
Definition p_log_file : path := [bs "logging"; bs "file"].
Definition p_log_max_size : path := [bs "logging"; bs "max_size"].
Definition p_log_max_backups : path := [bs "logging"; bs "max_backups"].
Definition p_log_compress : path := [bs "logging"; bs "compress"].
Definition p_log_stdout : path := [bs "logging"; bs "to_stdout"].

(* every setting of config.Config the model knows, with the kind of its value.  A setting added
   to reservoir is absent here, so the regenerated table fails fields_covered. *)
Definition model_fields : list (path * fkind) :=
  [ (p_proxy_listen, KStr); (p_ca_cert, KStr); (p_ca_key, KStr); (p_upstream_https, KBool);
    (p_retry_416, KBool); (p_retry_invalid, KBool); (p_ignore_cc, KBool); (p_default_max_age, KDur);
    (p_force_max_age, KBool);
    (p_web_listen, KStr); (p_dash_disabled, KBool); (p_api_disabled, KBool);
    (p_max_cache_size, KSize); (p_cache_type, KStr); (p_cleanup_interval, KDur); (p_lock_shards, KInt);
    (p_cache_dir, KStr); (p_mem_percent, KInt);
    (p_log_level, KLevel); (p_log_file, KStr); (p_log_max_size, KSize); (p_log_max_backups, KInt);
    (p_log_compress, KBool); (p_log_stdout, KBool) ].

Definition fields_covered (tbl : table) : bool :=
  table_ok tbl &&
  forallb (fun f => existsb (fun m => path_eqb (fst m) (f_path f) && fkind_eqb (snd m) (f_kind f)) model_fields) tbl &&
  forallb (fun m => existsb (fun f => path_eqb (fst m) (f_path f) && fkind_eqb (snd m) (f_kind f)) tbl) model_fields.

(* ---------------------------------------------------------------------- *)
(* Config.verify on one view (a list of values aligned with the table)      *)

Definition get (tbl : table) (vs : list fval) (p : path) : option fval :=
  match find_field tbl p with Some (i, _) => nth_error vs i | None => None end.

Definition is_s (o : option fval) (pred : str -> bool) : bool :=
  match o with Some (VS s) => pred s | _ => false end.
Definition is_z (o : option fval) (pred : Z -> bool) : bool :=
  match o with Some (VZ z) => pred z | _ => false end.
Definition nonempty (s : str) : bool := match s with [] => false | _ => true end.

(* verifyListenAddress *)
Definition listen_ok (s : str) : bool := nonempty s && addr_ok s.

Definition max_lock_shards : Z := 2^20.

Definition verify_proxy (tbl : table) (vs : list fval) : bool :=
  is_s (get tbl vs p_proxy_listen) listen_ok &&
  is_s (get tbl vs p_ca_cert) nonempty &&
  is_s (get tbl vs p_ca_key) nonempty.

Definition verify_webserver (tbl : table) (vs : list fval) : bool :=
  is_s (get tbl vs p_web_listen) listen_ok &&
  match get tbl vs p_api_disabled, get tbl vs p_dash_disabled with
  | Some (VB api), Some (VB dash) => negb (api && negb dash)
  | _, _ => false
  end.

Definition verify_cache (tbl : table) (vs : list fval) : bool :=
  is_z (get tbl vs p_max_cache_size) (fun n => 0 <? n) &&
  is_z (get tbl vs p_cleanup_interval) (fun n => 0 <? n) &&
  is_z (get tbl vs p_lock_shards) (fun n => (1 <=? n) && (n <=? max_lock_shards)) &&
  is_z (get tbl vs p_mem_percent) (fun n => (0 <=? n) && (n <=? 100)) &&
  is_s (get tbl vs p_cache_dir) nonempty &&
  is_s (get tbl vs p_cache_type) (fun s => str_eqb s (bs "file") || str_eqb s (bs "memory")).

Definition verify_view (tbl : table) (vs : list fval) : bool :=
  verify_proxy tbl vs && verify_webserver tbl vs && verify_cache tbl vs.

(* ---------------------------------------------------------------------- *)
(* the consumers                                                            *)

(* make([]sync.RWMutex, n): panics for a negative length and for a length whose byte size
   (24 bytes per RWMutex) exceeds the address space the runtime can allocate (2^48) *)
Definition make_locks (n : Z) : res unit :=
  if (n <? 0) || (2^48 <? n * 24) then Panic else Ok tt.
(* getLock: &locks[val % uint32(len(locks))], val a uint32 *)
Definition get_lock (n : Z) (val : Z) : res Z :=
  let m := n mod 2^32 in
  if m =? 0 then Panic (* integer divide by zero *)
  else let i := val mod m in if i <? n then Ok i else Panic (* index out of range *).
(* time.NewTicker(d) / ticker.Reset(d): "non-positive interval" *)
Definition ticker (d : Z) : res unit := if d <=? 0 then Panic else Ok tt.
(* proxy.NewProxy: switch cfg.Cache.Type.Read() ... default: error (main panics) *)
Definition cache_type_ok (s : str) : bool := str_eqb s (bs "file") || str_eqb s (bs "memory").
(* main.startWebServer: if apiDisabled && !dashboardDisabled { panic } *)
Definition webserver_start (api dash : bool) : res unit := if api && negb dash then Panic else Ok tt.

(* what a listener does with a value it is told; false = the process dies.
   cache_janitor.go: case newInterval := <-j.intervalChanged: ticker.Reset(newInterval) *)
Definition listener_ok (p : path) (v : fval) : bool :=
  if path_eqb p p_cleanup_interval then
    match v with VZ d => match ticker d with Ok _ => true | _ => false end | _ => false end
  else true.

(* "the proxy can run under it", decidable form: every consumer's precondition that depends on
   the values alone (not on the machine: free ports, existing files, resolvable host names) *)
Definition can_run_b (tbl : table) (vs : list fval) : bool :=
  is_s (get tbl vs p_proxy_listen) addr_ok &&                       (* http.Server.ListenAndServe -> errChan -> panic *)
  is_s (get tbl vs p_web_listen) addr_ok &&
  is_s (get tbl vs p_ca_cert) nonempty &&                           (* certs.NewPrivateCA reads the files *)
  is_s (get tbl vs p_ca_key) nonempty &&
  match get tbl vs p_api_disabled, get tbl vs p_dash_disabled with
  | Some (VB api), Some (VB dash) => match webserver_start api dash with Ok _ => true | _ => false end
  | _, _ => false
  end &&
  is_s (get tbl vs p_cache_type) cache_type_ok &&
  is_s (get tbl vs p_cache_dir) nonempty &&                         (* assertedpath.AssertDirectory("") panics *)
  is_z (get tbl vs p_cleanup_interval) (fun d => match ticker d with Ok _ => true | _ => false end) &&
  is_z (get tbl vs p_lock_shards) (fun n => match make_locks n with Ok _ => (1 <=? n) && (n <? 2^32) | _ => false end) &&
  is_z (get tbl vs p_max_cache_size) (fun n => 0 <? n) &&             (* a cache that may hold something *)
  is_z (get tbl vs p_mem_percent) (fun n => (0 <=? n) && (n <=? 100)).  (* int64(total) * percent / 100 stays in range *)

(* ---------------------------------------------------------------------- *)
(* the running process                                                      *)

Inductive file := FGood (vs : list fval) | FTorn (n : Z) | FAbsent.

Record st := {
  s_props : list (cprop fval);     (* aligned with the table *)
  s_log : list (list fval);        (* per setting: everything its listeners were told, oldest first *)
  s_file : file;                   (* var/config.json: the values a complete file holds, or a torn prefix *)
  s_restart : bool;                (* config.restartNeeded *)
  s_alive : bool                   (* no listener has brought the process down *)
}.

Definition effective (s : st) : list fval := map cp_read (s_props s).
Definition bases (s : st) : list fval := map cp_marshal (s_props s).
Definition settled (s : st) : Prop := Forall (fun p => c_staged p = None) (s_props s).

Fixpoint upd_nth {A} (i : nat) (g : A -> A) (l : list A) : list A :=
  match l, i with
  | [], _ => []
  | x :: r, O => g x :: r
  | x :: r, S j => x :: upd_nth j g r
  end.

(* prop.UnmarshalJSONStaged -> Stage, in the order of the walk *)
Definition stage_all (l : list (nat * fval)) (ps : list (cprop fval)) : list (cprop fval) :=
  fold_left (fun ps iv => upd_nth (fst iv) (fun p => fst (cp_stage (snd iv) p)) ps) l ps.
(* for _, prop := range stagedProps { prop.DiscardStaged() } *)
Definition discard_all (l : list (nat * fval)) (ps : list (cprop fval)) : list (cprop fval) :=
  fold_left (fun ps iv => upd_nth (fst iv) cp_discard ps) l ps.

Definition pending_eff (ps : list (cprop fval)) : list fval := map (fun p => ow_get (cp_pending p)) ps.
Definition pending_saved (ps : list (cprop fval)) : list fval := map cp_marshal ps.

(* CommitStaged of the property with index i: commit, restart flag, Fire (the listeners react) *)
Definition commit_one (tbl : table) (s : st) (i : nat) : st :=
  match nth_error (s_props s) i, nth_error tbl i with
  | Some p, Some f =>
      let told := cp_commit_fires p in
      let changed := match c_staged p with
                     | Some o => negb (fval_eqb (o_value (c_committed p)) (o_value o))
                     | None => false
                     end in
      {| s_props := upd_nth i cp_commit (s_props s);
         s_log := upd_nth i (fun lg => lg ++ told) (s_log s);
         s_file := s_file s;
         s_restart := s_restart s || (f_restart f && changed);
         s_alive := s_alive s && forallb (listener_ok (f_path f)) told |}
  | _, _ => s
  end.

Inductive status := Failed | Success | RestartRequired.

(* the write of the complete file (wlen bytes) under a file size limit *)
Definition write_ok (fault : option Z) (wlen : Z) : bool :=
  match fault with None => true | Some n => wlen <=? n end.

(* UpdatePartialFromConfig(cfg, updates) with updates != nil *)
Definition update (tbl : table) (s : st) (doc : jmap) (fault : option Z) (wlen : Z) : res (st * status) :=
  let '(l, r) := walk tbl [] doc in
  let ps := stage_all l (s_props s) in
  let refused := Ok ({| s_props := discard_all l ps; s_log := s_log s; s_file := s_file s;
                        s_restart := s_restart s; s_alive := s_alive s |}, Failed) in
  match r with
  | WPanic => Panic
  | WErr => refused
  | WOk =>
      if verify_view tbl (pending_eff ps) && verify_view tbl (pending_saved ps) then
        if write_ok fault wlen then
          let s1 := {| s_props := ps; s_log := s_log s; s_file := FGood (pending_saved ps);
                       s_restart := s_restart s; s_alive := s_alive s |} in
          let s2 := fold_left (commit_one tbl) (map fst l) s1 in
          Ok (s2, if s_restart s2 then RestartRequired else Success)
        else refused
      else refused
  end.

(* a nil map: "UpdatePartialFromConfig called with nil updates" *)
Definition update_opt (tbl : table) (s : st) (doc : option jmap) (fault : option Z) (wlen : Z) : res (st * status) :=
  match doc with Some m => update tbl s m fault wlen | None => Ok (s, Failed) end.

(* OverrideFromFlags -> ConfigProp.Overwrite *)
Definition override (tbl : table) (s : st) (i : nat) (v : fval) : st :=
  match nth_error (s_props s) i, nth_error tbl i with
  | Some p, Some f =>
      {| s_props := upd_nth i (fun p => fst (cp_overwrite v p)) (s_props s);
         s_log := upd_nth i (fun lg => lg ++ [v]) (s_log s);
         s_file := s_file s; s_restart := s_restart s;
         s_alive := s_alive s && listener_ok (f_path f) v |}
  | _, _ => s
  end.

(* load: decode every property, checkIsSetRecursive (all present), verify *)
Definition load (tbl : table) (f : file) : res (list fval) :=
  match f with
  | FGood vs => if (length vs =? length tbl)%nat && verify_view tbl vs then Ok vs else Err
  | _ => Err
  end.

Definition fresh (vs : list fval) (f : file) : st :=
  {| s_props := map cp_new vs; s_log := map (fun _ => []) vs; s_file := f; s_restart := false; s_alive := true |}.

(* LoadOrDefault: a file that does not load is replaced by the defaults *)
Definition start (tbl : table) (f : file) : st :=
  match load tbl f with
  | Ok vs => fresh vs f
  | _ => fresh (defaults tbl) (FGood (defaults tbl))
  end.

(* histories of the running process *)
Inductive op := OUpdate (doc : option jmap) (fault : option Z) (wlen : Z) | OOverride (i : nat) (v : fval).

Definition step (tbl : table) (s : st) (o : op) : res st :=
  match o with
  | OUpdate doc fault wlen => match update_opt tbl s doc fault wlen with Ok (s', _) => Ok s' | Err => Err | Panic => Panic end
  | OOverride i v => Ok (override tbl s i v)
  end.

Fixpoint run (tbl : table) (s : st) (ops : list op) : res st :=
  match ops with
  | [] => Ok s
  | o :: rest => res_bind (step tbl s o) (fun s1 => run tbl s1 rest)
  end.

End Txn.
