(* C17 — the command-line layer (config/overrides.go, config/flags/*.go) over the whole configuration.

   [flag_table] is the documented interface (README.md, "Command-Line Arguments"): which setting a flag addresses
   and how its text is read.  OverrideFromFlags registers every flag with the standard flag package, parses the
   command line, and for every flag that was GIVEN (flag.Visit — also when the value equals the declared default)
   calls Overwrite on the setting with the converted value.  Nothing else is touched, nothing is saved.

   The whole configuration is the list of its properties by dotted JSON path, each one the ConfigProp state machine
   of Model/ConfigProp.v.  [wstep] is one thing the running process does to it: a flag at start-up or an accepted
   API update of one setting (stage, persist, commit). *)
From Reservoir Require Import Base.Prelude Model.ByteSize Model.ConfigProp.
From Coq Require Import String.
Local Open Scope string_scope.

Inductive fconv := FCStr | FCBool | FCInt | FCSize | FCLevel.

Definition flag_table : list (string * (string * fconv)) :=
  [ ("listen", ("proxy.listen", FCStr));
    ("ca-cert", ("proxy.ca_cert", FCStr));
    ("ca-key", ("proxy.ca_key", FCStr));
    ("cache-dir", ("cache.file.dir", FCStr));
    ("webserver-listen", ("webserver.listen", FCStr));
    ("no-dashboard", ("webserver.dashboard_disabled", FCBool));
    ("no-api", ("webserver.api_disabled", FCBool));
    ("log-level", ("logging.level", FCLevel));
    ("log-file", ("logging.file", FCStr));
    ("log-file-max-size", ("logging.max_size", FCSize));
    ("log-file-max-backups", ("logging.max_backups", FCInt));
    ("log-file-compress", ("logging.compress", FCBool));
    ("log-to-stdout", ("logging.to_stdout", FCBool)) ]%list.

(* flags that address no setting *)
Definition other_flags : list string := ["version"]%list.

Fixpoint lookup {A} (k : string) (l : list (string * A)) : option A :=
  match l with
  | nil => None
  | (k', a) :: r => if String.eqb k k' then Some a else lookup k r
  end.

(* --- how a flag's text is read ------------------------------------------- *)
(* strconv.ParseBool *)
Definition parse_bool (s : str) : res bool :=
  if existsb (str_eqb s) [[49]; [116]; [84]; [84;82;85;69]; [116;114;117;101]; [84;114;117;101]]%list%Z then Ok true
  else if existsb (str_eqb s) [[48]; [102]; [70]; [70;65;76;83;69]; [102;97;108;115;101]; [70;97;108;115;101]]%list%Z then Ok false
  else Err.

(* strconv.Atoi on the text the flag package printed back (a decimal with an optional sign) *)
Fixpoint dec_loop (acc : Z) (s : str) : res Z :=
  match s with
  | nil => Ok acc
  | c :: r => if is_digit c then dec_loop (acc * 10 + (c - 48)) r else Err
  end.
Definition parse_int (s : str) : res Z :=
  match s with
  | nil => Err
  | c :: r =>
      if (c =? 45)%Z then match r with nil => Err | _ => res_bind (dec_loop 0 r) (fun n => Ok (- n)%Z) end
      else if (c =? 43)%Z then match r with nil => Err | _ => dec_loop 0 r end
      else dec_loop 0 s
  end.

(* slog.Level.UnmarshalJSON on the four documented names, in any letter case *)
Definition upper (c : Z) : Z := if ((97 <=? c) && (c <=? 122))%Z then (c - 32)%Z else c.
Definition parse_level (s : str) : res Z :=
  let u := map upper s in
  if str_eqb u [68;69;66;85;71]%list%Z then Ok (-4)%Z
  else if str_eqb u [73;78;70;79]%list%Z then Ok 0%Z
  else if str_eqb u [87;65;82;78]%list%Z then Ok 4%Z
  else if str_eqb u [69;82;82;79;82]%list%Z then Ok 8%Z
  else Err.

Definition conv (c : fconv) (raw : str) : res fval :=
  match c with
  | FCStr => Ok (VS raw)
  | FCBool => res_bind (parse_bool raw) (fun b => Ok (VB b))
  | FCInt => res_bind (parse_int raw) (fun n => Ok (VZ n))
  | FCSize => res_bind (bs_parse raw) (fun n => Ok (VZ n))
  | FCLevel => res_bind (parse_level raw) (fun n => Ok (VZ n))
  end.

(* --- the whole configuration ---------------------------------------------- *)
Definition fconfig := list (string * cprop fval).

Definition on_path (path : string) (f : cprop fval -> cprop fval) (c : fconfig) : fconfig :=
  map (fun kp => if String.eqb (fst kp) path then (fst kp, f (snd kp)) else kp) c.

Definition eff_of (c : fconfig) : list (string * fval) := map (fun kp => (fst kp, cp_read (snd kp))) c.
Definition saved_of (c : fconfig) : list (string * fval) := map (fun kp => (fst kp, cp_marshal (snd kp))) c.

Inductive wop := WFlag (name : string) (raw : str) | WUpdate (path : string) (v : fval).

(* a flag whose text cannot be read stops the process at start-up (Err); an unknown flag too *)
Definition wstep (c : fconfig) (op : wop) : res fconfig :=
  match op with
  | WFlag name raw =>
      match lookup name flag_table with
      | None => Err
      | Some (path, cv) =>
          res_bind (conv cv raw) (fun v => Ok (on_path path (fun p => crun p [COverride v]%list) c))
      end
  | WUpdate path v => Ok (on_path path (fun p => crun p [CUpdate v]%list) c)
  end.

Fixpoint wrun (c : fconfig) (ops : list wop) : res fconfig :=
  match ops with
  | nil => Ok c
  | op :: r => res_bind (wstep c op) (fun c' => wrun c' r)
  end.

(* the setting a flag addresses and the value it carries *)
Definition flag_target (name : string) (raw : str) : res (string * fval) :=
  match lookup name flag_table with
  | None => Err
  | Some (path, cv) => res_bind (conv cv raw) (fun v => Ok (path, v))
  end.

(* the last flag of [ops] that addresses [path], if any *)
Fixpoint last_flag (path : string) (ops : list wop) (acc : option fval) : option fval :=
  match ops with
  | nil => acc
  | WFlag name raw :: r =>
      match flag_target name raw with
      | Ok (p, v) => last_flag path r (if String.eqb p path then Some v else acc)
      | _ => last_flag path r acc
      end
  | WUpdate _ _ :: r => last_flag path r acc
  end.

(* the last API update of [ops] that addresses [path], if any *)
Fixpoint last_update (path : string) (ops : list wop) (acc : option fval) : option fval :=
  match ops with
  | nil => acc
  | WUpdate p v :: r => last_update path r (if String.eqb p path then Some v else acc)
  | WFlag _ _ :: r => last_update path r acc
  end.

(* what one history does to the setting at [path] (the entry's own path comes first in the comparison, as in on_path) *)
Fixpoint proj (path : string) (ops : list wop) : list (cop fval) :=
  match ops with
  | nil => nil
  | WFlag name raw :: r =>
      match flag_target name raw with
      | Ok (p, v) => if String.eqb path p then COverride v :: proj path r else proj path r
      | _ => proj path r
      end
  | WUpdate p v :: r => if String.eqb path p then CUpdate v :: proj path r else proj path r
  end.

Definition updates_only (ops : list wop) : list wop :=
  filter (fun op => match op with WUpdate _ _ => true | WFlag _ _ => false end) ops.

Definition fresh (vals : list (string * fval)) : fconfig := map (fun kv => (fst kv, cp_new (snd kv))) vals.
