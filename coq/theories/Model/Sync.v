(* C14 — locks, threads and the synchronisation skeleton of package cache.

   Two layers.

   1. A small concurrent machine.  A thread is a finite program tree over
      lock operations ([PAcq] blocks, [PTry] never blocks and takes its
      success branch iff the lock is free at that very moment, [PRel]), an
      environment-dependent blocking operation ([PBlock]: channel send /
      receive / select, which the machine may or may not let through), an
      external call assumed to return ([PIO]) and internal choice
      ([PChoice]: data-dependent branches, loop exits).  Locks are PHYSICAL:
      [Mu] is the cache's map lock, [Shard i] the i-th entry of the shard
      lock array, [Leaf n] a lock of another package inside whose critical
      sections nothing blocks.  sync.RWMutex read acquisitions are modelled
      as exclusive ones (sound for deadlock under the rank discipline below:
      a holder of a lock never waits for a lock of the same or a lower rank,
      so Go's writer preference cannot close a cycle).
      A system is a list of threads; [sys_step] is executable.

   2. The skeleton language the extractor (harness/skel) regenerates from the
      Go sources on every run: structured control flow over SYMBOLIC locks
      ([SShard v]: "the lock variable v", bound by [SBind] to an arbitrary
      physical shard each time the binding statement executes), with an
      abstract interpretation [check] that is proved sound in Proofs/Sync.v
      with respect to every denotation [den] of the skeleton as a program
      tree, for every shard map. *)
From Reservoir Require Import Base.Prelude.
From Coq Require Import Arith PeanoNat.

(* ------------------------------------------------------------------ *)
(* Physical locks and programs *)

Inductive lock := Mu | Shard (i : nat) | Leaf (n : nat).

Definition lock_eqb (a b : lock) : bool :=
  match a, b with
  | Mu, Mu => true
  | Shard i, Shard j => Nat.eqb i j
  | Leaf i, Leaf j => Nat.eqb i j
  | _, _ => false
  end.

(* Shard locks first, then the map lock, then leaf locks of other packages. *)
Definition rank (l : lock) : nat :=
  match l with Shard _ => 0%nat | Mu => 1%nat | Leaf _ => 2%nat end.

Inductive prog :=
| PDone
| PAcq (l : lock) (k : prog)
| PRel (l : lock) (k : prog)
| PTry (l : lock) (kok kfail : prog)
| PChoice (k1 k2 : prog)
| PBlock (k : prog)
| PIO (k : prog).

Record thread := { held : list lock; code : prog }.
Definition sys := list thread.

Fixpoint lmem (l : lock) (h : list lock) : bool :=
  match h with [] => false | x :: r => lock_eqb l x || lmem l r end.

Fixpoint remove1 (l : lock) (h : list lock) : list lock :=
  match h with
  | [] => []
  | x :: r => if lock_eqb l x then r else x :: remove1 l r
  end.

Definition is_free (s : sys) (l : lock) : bool :=
  forallb (fun t => negb (lmem l (held t))) s.

(* One step of thread [t] inside system [s]; [choice] resolves [PChoice].
   [None]: the thread cannot move now (finished, waiting for a lock, or
   unlocking a lock it does not hold, which the Go runtime treats as fatal). *)
Definition thread_step (s : sys) (t : thread) (choice : bool) : option thread :=
  match code t with
  | PDone => None
  | PAcq l k => if is_free s l then Some {| held := l :: held t; code := k |} else None
  | PRel l k => if lmem l (held t) then Some {| held := remove1 l (held t); code := k |} else None
  | PTry l kok kfail =>
      if is_free s l then Some {| held := l :: held t; code := kok |}
      else Some {| held := held t; code := kfail |}
  | PChoice k1 k2 => Some {| held := held t; code := if choice then k1 else k2 |}
  | PBlock k => Some {| held := held t; code := k |}
  | PIO k => Some {| held := held t; code := k |}
  end.

Fixpoint upd_nth {A} (i : nat) (x : A) (l : list A) : list A :=
  match l, i with
  | [], _ => []
  | _ :: r, O => x :: r
  | y :: r, S j => y :: upd_nth j x r
  end.

Definition sys_step (s : sys) (i : nat) (choice : bool) : option sys :=
  match nth_error s i with
  | None => None
  | Some t =>
      match thread_step s t choice with
      | None => None
      | Some t' => Some (upd_nth i t' s)
      end
  end.

(* A schedule picks, at each step, a thread and the resolution of its choice. *)
Fixpoint run (s : sys) (sched : list (nat * bool)) : option sys :=
  match sched with
  | [] => Some s
  | (i, c) :: r => match sys_step s i c with None => None | Some s' => run s' r end
  end.

Definition spawn (ps : list prog) : sys := map (fun p => {| held := []; code := p |}) ps.

Definition is_done (t : thread) : bool := match code t with PDone => true | _ => false end.
Definition at_block (t : thread) : bool := match code t with PBlock _ => true | _ => false end.

(* Nothing left to do except operations whose progress is up to the environment. *)
Definition quiescent (s : sys) : bool :=
  forallb (fun t => (is_done t || at_block t) && match held t with [] => true | _ => false end) s.

Fixpoint psize (p : prog) : nat :=
  match p with
  | PDone => 0
  | PAcq _ k | PRel _ k | PBlock k | PIO k => S (psize k)
  | PTry _ a b | PChoice a b => S (psize a + psize b)
  end.
Definition total (s : sys) : nat := fold_right (fun t n => (psize (code t) + n)%nat) 0%nat s.

(* The rank discipline, on the thread's CONCRETE held list:
   block on a lock only while every held lock has a strictly smaller rank
   (so: on a shard lock only while holding nothing; on the map lock only
   while holding shard locks; on a leaf lock only while holding no leaf
   lock); release only what is held; finish, or wait for the environment,
   only while holding nothing.  [PTry] constrains its success branch only
   when the lock is not already held by the thread itself. *)
Fixpoint disc (h : list lock) (p : prog) : Prop :=
  match p with
  | PDone => h = []
  | PAcq l k => (forall l', In l' h -> (rank l' < rank l)%nat) /\ disc (l :: h) k
  | PRel l k => In l h /\ disc (remove1 l h) k
  | PTry l kok kfail => (~ In l h -> disc (l :: h) kok) /\ disc h kfail
  | PChoice a b => disc h a /\ disc h b
  | PBlock k => h = [] /\ disc h k
  | PIO k => disc h k
  end.

(* No operation that can wait: such a thread finishes whatever the others do. *)
Fixpoint wait_free (p : prog) : bool :=
  match p with
  | PDone => true
  | PAcq _ _ => false
  | PBlock _ => false
  | PRel _ k | PIO k => wait_free k
  | PTry _ a b | PChoice a b => wait_free a && wait_free b
  end.

(* ------------------------------------------------------------------ *)
(* Skeletons (regenerated from the Go sources) *)

Inductive slock := SMu | SShard (v : nat) | SLeaf (n : nat).

Definition slock_eqb (a b : slock) : bool :=
  match a, b with
  | SMu, SMu => true
  | SShard i, SShard j => Nat.eqb i j
  | SLeaf i, SLeaf j => Nat.eqb i j
  | _, _ => false
  end.

Definition srank (l : slock) : nat :=
  match l with SShard _ => 0%nat | SMu => 1%nat | SLeaf _ => 2%nat end.

Inductive skel :=
| SSkip
| SAcq (l : slock)
| SRel (l : slock)
| STry (l : slock) (ok fail : skel)
| SSeq (a b : skel)
| SAlt (a b : skel)
| SStar (a : skel)
| SBind (v : nat) (body : skel)   (* v := getLock(...): any physical shard *)
| SBlock                           (* channel operation / select without default *)
| SIO                              (* external call assumed to return *)
| SRet                             (* return from the enclosing SFun *)
| SFun (body : skel)               (* an (inlined) function body *)
| SUnknown.                        (* the extractor could not classify a construct *)

Fixpoint smem (l : slock) (h : list slock) : bool :=
  match h with [] => false | x :: r => slock_eqb l x || smem l r end.

Fixpoint sremove1 (l : slock) (h : list slock) : list slock :=
  match h with
  | [] => []
  | x :: r => if slock_eqb l x then r else x :: sremove1 l r
  end.

Fixpoint sheld_eqb (a b : list slock) : bool :=
  match a, b with
  | [], [] => true
  | x :: a', y :: b' => slock_eqb x y && sheld_eqb a' b'
  | _, _ => false
  end.

(* Result of the abstract interpretation: the construct is rejected, never
   falls through (every path returns), or falls through holding [h]. *)
Inductive cres := CFail | CNoExit | CExit (h : list slock).

Definition cjoin (a b : cres) : cres :=
  match a, b with
  | CFail, _ | _, CFail => CFail
  | CNoExit, x | x, CNoExit => x
  | CExit h1, CExit h2 => if sheld_eqb h1 h2 then CExit h1 else CFail
  end.

(* [check s h hret]: interpret [s] entered holding [h], inside a function
   that must return holding [hret]. *)
Fixpoint check (s : skel) (h hret : list slock) : cres :=
  match s with
  | SSkip => CExit h
  | SAcq l => if forallb (fun l' => Nat.ltb (srank l') (srank l)) h then CExit (l :: h) else CFail
  | SRel l => if smem l h then CExit (sremove1 l h) else CFail
  | STry l ok fail =>
      if smem l h then check fail h hret
      else cjoin (check ok (l :: h) hret) (check fail h hret)
  | SSeq a b =>
      match check a h hret with
      | CFail => CFail
      | CNoExit => CNoExit
      | CExit h' => check b h' hret
      end
  | SAlt a b => cjoin (check a h hret) (check b h hret)
  | SStar a =>
      match check a h hret with
      | CFail => CFail
      | CNoExit => CExit h
      | CExit h' => if sheld_eqb h' h then CExit h else CFail
      end
  | SBind v body =>
      if smem (SShard v) h || smem (SShard v) hret then CFail
      else match check body h hret with
           | CFail => CFail
           | CNoExit => CNoExit
           | CExit h' => if smem (SShard v) h' then CFail else CExit h'
           end
  | SBlock => match h with [] => CExit [] | _ => CFail end
  | SIO => CExit h
  | SRet => if sheld_eqb h hret then CNoExit else CFail
  | SFun body =>
      match check body h h with
      | CFail => CFail
      | CNoExit => CExit h
      | CExit h' => if sheld_eqb h' h then CExit h else CFail
      end
  | SUnknown => CFail
  end.

(* A top-level entry (an exported operation, a goroutine body, a callback)
   starts and ends holding nothing. *)
Definition entry_ok (s : skel) : bool :=
  match check (SFun s) [] [] with CExit [] => true | _ => false end.

(* Never waits for a cache lock or for the environment (leaf locks of other
   packages, inside which nothing blocks, are tolerated). *)
Fixpoint nonblocking (s : skel) : bool :=
  match s with
  | SSkip | SIO | SRet | SRel _ => true
  | SAcq (SLeaf _) => true
  | SAcq _ => false
  | SBlock | SUnknown => false
  | STry _ a b | SSeq a b | SAlt a b => nonblocking a && nonblocking b
  | SStar a | SBind _ a | SFun a => nonblocking a
  end.

(* Strictly without any waiting operation. *)
Fixpoint waitfree_skel (s : skel) : bool :=
  match s with
  | SSkip | SIO | SRet | SRel _ => true
  | SAcq _ | SBlock | SUnknown => false
  | STry _ a b | SSeq a b | SAlt a b => waitfree_skel a && waitfree_skel b
  | SStar a | SBind _ a | SFun a => waitfree_skel a
  end.

(* Instantiation of symbolic locks by a shard map. *)
Definition plock (rho : nat -> nat) (l : slock) : lock :=
  match l with SMu => Mu | SShard v => Shard (rho v) | SLeaf n => Leaf n end.
Definition phys (rho : nat -> nat) (h : list slock) : list lock := map (plock rho) h.
Definition upd_env (rho : nat -> nat) (v i : nat) : nat -> nat :=
  fun w => if Nat.eqb w v then i else rho w.

(* [den s rho knext kret p]: [p] is one program tree the skeleton [s] can
   stand for, continuing with [knext] when it falls through and with [kret]
   when it returns: loops are unrolled any finite number of times (each
   iteration may also be the last), every execution of a binding picks an
   arbitrary physical shard. *)
Inductive den : skel -> (nat -> nat) -> prog -> prog -> prog -> Prop :=
| DSkip rho kn kr : den SSkip rho kn kr kn
| DAcq l rho kn kr : den (SAcq l) rho kn kr (PAcq (plock rho l) kn)
| DRel l rho kn kr : den (SRel l) rho kn kr (PRel (plock rho l) kn)
| DTry l ok fail rho kn kr pok pfail :
    den ok rho kn kr pok -> den fail rho kn kr pfail ->
    den (STry l ok fail) rho kn kr (PTry (plock rho l) pok pfail)
| DSeq a b rho kn kr pb p :
    den b rho kn kr pb -> den a rho pb kr p -> den (SSeq a b) rho kn kr p
| DAlt a b rho kn kr pa pb :
    den a rho kn kr pa -> den b rho kn kr pb -> den (SAlt a b) rho kn kr (PChoice pa pb)
| DStar0 a rho kn kr : den (SStar a) rho kn kr kn
| DStarS a rho kn kr ploop pbody :
    den (SStar a) rho kn kr ploop -> den a rho ploop kr pbody ->
    den (SStar a) rho kn kr (PChoice kn pbody)
| DBind v body rho i kn kr p :
    den body (upd_env rho v i) kn kr p -> den (SBind v body) rho kn kr p
| DBlock rho kn kr : den SBlock rho kn kr (PBlock kn)
| DIO rho kn kr : den SIO rho kn kr (PIO kn)
| DRet rho kn kr : den SRet rho kn kr kr
| DFun body rho kn kr p : den body rho kn kn p -> den (SFun body) rho kn kr p.

(* The threads a list of entries can give rise to. *)
Definition thread_of (entries : list skel) (p : prog) : Prop :=
  exists e rho, In e entries /\ den (SFun e) rho PDone PDone p.

(* Never WAITS for a shard lock (TryLock is fine): what an eviction started
   from inside a store must satisfy, since its caller holds a shard lock. *)
Fixpoint no_shard_acq (s : skel) : bool :=
  match s with
  | SAcq (SShard _) | SUnknown => false
  | SSkip | SIO | SRet | SRel _ | SAcq _ | SBlock => true
  | STry _ a b | SSeq a b | SAlt a b => no_shard_acq a && no_shard_acq b
  | SStar a | SBind _ a | SFun a => no_shard_acq a
  end.

Fixpoint never_awaits_shard (p : prog) : bool :=
  match p with
  | PDone => true
  | PAcq (Shard _) _ => false
  | PAcq _ k | PRel _ k | PBlock k | PIO k => never_awaits_shard k
  | PTry _ a b | PChoice a b => never_awaits_shard a && never_awaits_shard b
  end.
