(* Executable model of config/config_prop.go, config/overwritable.go,
   config/commitable.go (one configuration property) and of the save/load
   path of config/config.go at field level.

   ConfigProp[T].value holds a commitable[overwritable[T]]:
     overwritable = { value (the base, what the file holds); overwritten (CLI override) }
     commitable   = { comittedValue : overwritable; stagedValue : Optional[overwritable] }  *)
From Reservoir Require Import Base.Prelude Model.ByteSize.

Section OneProp.
Context {T : Type}.

Record ow := { o_value : T; o_over : option T }.
Record cprop := { c_committed : ow; c_staged : option ow }.

(* overwritable.Get: the overwrite if there is one, else the value *)
Definition ow_get (o : ow) : T := match o_over o with Some v => v | None => o_value o end.

(* NewConfigProp / UnmarshalJSON: NewCommitable(NewOverwritable(v)) *)
Definition cp_new (v : T) : cprop :=
  {| c_committed := {| o_value := v; o_over := None |}; c_staged := None |}.

(* Read: commit.ref().Get() *)
Definition cp_read (p : cprop) : T := ow_get (c_committed p).

(* pending(v): the overwritable the property will hold once a staged change is committed
   (the committed one if nothing is staged) *)
Definition cp_pending (p : cprop) : ow := match c_staged p with Some o => o | None => c_committed p end.

(* MarshalJSON: pending(saved) -- the base value that is, or is about to be, saved.  A staged
   value is written to the file before it is committed (UpdatePartialFromConfig: stage, verify,
   persist, commit), so that an update whose write fails can still be refused. *)
Definition cp_marshal (p : cprop) : T := o_value (cp_pending p).

(* Every mutator returns the new state and the values handed to onChange.Fire. *)

(* Overwrite: commit.ref().Overwrite(v); Fire(v) *)
Definition cp_overwrite (v : T) (p : cprop) : cprop * list T :=
  ({| c_committed := {| o_value := o_value (c_committed p); o_over := Some v |};
      c_staged := c_staged p |}, [v]).

(* Stage: copy the committed overwritable, SetNoClear(newValue), commit.Stage(copy).
   Nobody is told (fix C18: listeners used to be told here, before verification and commit). *)
Definition cp_stage (nv : T) (p : cprop) : cprop * list T :=
  let o := {| o_value := nv; o_over := o_over (c_committed p) |} in
  ({| c_committed := c_committed p; c_staged := Some o |}, []).

(* CommitStaged: the staged overwritable becomes the committed one ... *)
Definition cp_commit (p : cprop) : cprop :=
  match c_staged p with
  | Some o => {| c_committed := o; c_staged := None |}
  | None => p
  end.
(* ... and Fire(staged.Get()) -- the effective value (fix C17/C19: listeners were told the base);
   nothing staged, nothing fired *)
Definition cp_commit_fires (p : cprop) : list T :=
  match c_staged p with
  | Some o => [ow_get o]
  | None => []
  end.

(* DiscardStaged *)
Definition cp_discard (p : cprop) : cprop := {| c_committed := c_committed p; c_staged := None |}.

(* fine-grained API operations of one property *)
Inductive fop := FOverwrite (v : T) | FStage (v : T) | FCommit.

Definition fstep (p : cprop) (op : fop) : cprop * list T :=
  match op with
  | FOverwrite v => cp_overwrite v p
  | FStage v => cp_stage v p
  | FCommit => (cp_commit p, cp_commit_fires p)
  end.

(* run, collecting everything fired *)
Definition frun (p : cprop) (ops : list fop) : cprop * list T :=
  fold_left (fun st op => let '(q, f) := fstep (fst st) op in (q, snd st ++ f)) ops (p, []).

(* What the running process does with one property: a CLI override
   (OverrideFromFlags -> Overwrite) or an accepted API update
   (UpdatePartialFromConfig: UnmarshalJSONStaged -> Stage, then CommitStaged). *)
Inductive cop := COverride (v : T) | CUpdate (v : T).

Definition expand (op : cop) : list fop :=
  match op with
  | COverride v => [FOverwrite v]
  | CUpdate v => [FStage v; FCommit]
  end.

Definition cstep (p : cprop) (op : cop) : cprop * list T := frun p (expand op).

Definition crun (p : cprop) (ops : list cop) : cprop :=
  fold_left (fun q op => fst (cstep q op)) ops p.

End OneProp.

Arguments ow : clear implicits.
Arguments cprop : clear implicits.
Arguments fop : clear implicits.
Arguments cop : clear implicits.

(* ---------------------------------------------------------------------- *)
(* Save / load at field level.  A configuration is the list of its
   properties in declaration order; every property has a kind that selects
   the JSON codec of its value. *)

Inductive fkind := KStr | KBool | KInt | KSize | KDur | KLevel.

Inductive fval := VS (s : str) | VB (b : bool) | VZ (z : Z).

Definition fval_eqb (a b : fval) : bool :=
  match a, b with
  | VS x, VS y => str_eqb x y
  | VB x, VB y => Bool.eqb x y
  | VZ x, VZ y => x =? y
  | _, _ => false
  end.

Definition fkind_eqb (a b : fkind) : bool :=
  match a, b with
  | KStr, KStr | KBool, KBool | KInt, KInt | KSize, KSize | KDur, KDur | KLevel, KLevel => true
  | _, _ => false
  end.

Fixpoint res_all {A} (l : list (res A)) : res (list A) :=
  match l with
  | [] => Ok []
  | r :: rest => res_bind r (fun a => res_bind (res_all rest) (fun t => Ok (a :: t)))
  end.

Section SaveLoad.
(* The codecs that are not ours: encoding/json for strings, booleans and
   integers, time.Duration.String / time.ParseDuration, slog.Level text form.
   They are parameters; their round-trip laws are hypotheses of the theorems
   (validated by the harness on every run, not proved). *)
Variable lib_enc : fkind -> fval -> str.
Variable lib_dec : fkind -> str -> res fval.
(* Config.verify on the decoded base values *)
Variable verify : list (fkind * fval) -> bool.

Definition enc_field (k : fkind) (v : fval) : str :=
  match k, v with
  | KSize, VZ n => bs_string n               (* ByteSize.MarshalJSON *)
  | _, _ => lib_enc k v
  end.

Definition dec_field (k : fkind) (s : str) : res fval :=
  match k with
  | KSize => match bs_parse s with Ok n => Ok (VZ n) | Err => Err | Panic => Panic end
  | _ => lib_dec k s
  end.

Definition config := list (fkind * cprop fval).

Definition bases (c : config) : list (fkind * fval) := map (fun kp => (fst kp, cp_marshal (snd kp))) c.
Definition effective (c : config) : list (fkind * fval) := map (fun kp => (fst kp, cp_read (snd kp))) c.

(* persist: json.Encode(cfg): every property writes its (pending) base value *)
Definition persist (c : config) : list (fkind * str) :=
  map (fun kv => (fst kv, enc_field (fst kv) (snd kv))) (bases c).

(* load: decode every property (a fresh ConfigProp without override), then verify *)
Definition load (f : list (fkind * str)) : res config :=
  match res_all (map (fun ks => match dec_field (fst ks) (snd ks) with
                                | Ok v => Ok (fst ks, v) | Err => Err | Panic => Panic end) f) with
  | Ok vs => if verify vs then Ok (map (fun kv => (fst kv, cp_new (snd kv))) vs) else Err
  | Err => Err
  | Panic => Panic
  end.

End SaveLoad.
