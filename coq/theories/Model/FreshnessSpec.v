(* Reference predicates of C03 / C04, written from the property statements (and
   RFC 9111 where the statements are silent), NOT from the code.  They share
   with the model only the lexical vocabulary of Base/Strings.v.

   C04: "... the origin did not mark it no-store, no-cache, private, max-age=0 or
         already expired"                                    -> marked_uncacheable
   C03: "... the lifetime given by the origin's Cache-Control max-age, else by its
         Expires date (an unparseable Expires counts as already expired), else by
         the configured default; always the configured default when the operator
         forces it"                                          -> lifetime_upper / lifetime_lower

   Interpretations fixed here (see design.d/C03.md):
   * directives are the comma-separated members of ALL Cache-Control lines,
     trimmed of ASCII white space, names compared ASCII-case-insensitively;
   * a max-age value is [+-]?DIGIT+ of any length (unbounded integer);
     several max-age directives: "the lifetime given by max-age" is at most the
     largest and at least the smallest positive one (RFC 9111 4.2.1 leaves the
     choice open), so both bounds coincide for the ordinary single directive;
   * a past or unparseable Expires marks the response as already expired even
     beside a max-age (the code refuses such responses; the statement's converse
     speaks of "no past Expires");
   * [cc_irregular]: a malformed or negative max-age value.  The statement
     demands nothing for these; they are excluded from the converse only. *)
From Reservoir Require Import Base.Prelude Base.Strings Model.Freshness.

Definition ref_tokens (hv : hview) : list str :=
  map (fun t => lower_str (ascii_trim t)) (flat_map (split_on 44) (cc_lines hv)).

Inductive ma := MaNone | MaBad | MaVal (v : Z).

Definition ref_max_age (t : str) : ma :=
  match cut_prefix [109;97;120;45;97;103;101;61] t with   (* "max-age=" *)
  | None => MaNone
  | Some r => match signed_decimal r with Some v => MaVal v | None => MaBad end
  end.

Definition tok_marks (t : str) : bool :=
  str_eqb t [110;111;45;115;116;111;114;101]      (* no-store *)
  || str_eqb t [110;111;45;99;97;99;104;101]      (* no-cache *)
  || str_eqb t [112;114;105;118;97;116;101]       (* private *)
  || match ref_max_age t with MaVal v => v =? 0 | _ => false end.

Definition expired_mark (hv : hview) (now : Z) : bool :=
  match expires hv with
  | ExpAbsent => false
  | ExpUnparseable => true
  | ExpAt t => t <? now
  end.

(* exactly the marks the statement of C04 lists *)
Definition marked_uncacheable (hv : hview) (now : Z) : bool :=
  existsb tok_marks (ref_tokens hv) || expired_mark hv now.

Definition cc_irregular (hv : hview) : bool :=
  existsb (fun t => match ref_max_age t with MaBad => true | MaVal v => v <? 0 | MaNone => false end)
          (ref_tokens hv).

Fixpoint positive_max_ages (toks : list str) : list Z :=
  match toks with
  | [] => []
  | t :: r => match ref_max_age t with
              | MaVal v => if 0 <? v then v :: positive_max_ages r else positive_max_ages r
              | _ => positive_max_ages r
              end
  end.

Definition ascii_header (hv : hview) : bool := forallb all_ascii (cc_lines hv).

(* the converse of C04 speaks about these responses *)
Definition must_store (pol : policy) (m : meth) (status : Z) (hv : hview) (now : Z) : bool :=
  is_get m && (status =? 200) && negb (resp_range hv) &&
  (ignore_cc pol ||
   (ascii_header hv && negb (marked_uncacheable hv now) && negb (cc_irregular hv) &&
    (match positive_max_ages (ref_tokens hv) with _ :: _ => true | [] => false end
     || match cc_lines hv with [] => true | _ => false end))).

(* the only-if direction of C04 *)
Definition may_store (pol : policy) (m : meth) (status : Z) (hv : hview) (now : Z) : bool :=
  is_get m && (status =? 200) && (ignore_cc pol || negb (marked_uncacheable hv now)).

(* lifetime as a duration from the instant [now] at which the response is stored *)
Definition lifetime_else (pol : policy) (hv : hview) (now : Z) : Z :=
  match expires hv with
  | ExpAt t => t - now
  | ExpUnparseable => 0            (* "already expired": anything <= 0 *)
  | ExpAbsent => default_age pol
  end.

Definition lifetime_upper (pol : policy) (hv : hview) (now : Z) : Z :=
  if force_default pol then default_age pol
  else match positive_max_ages (ref_tokens hv) with
       | [] => lifetime_else pol hv now
       | vs => list_max vs 0 * second
       end.

(* the largest number of whole seconds a time.Duration can hold: lifetimes beyond
   ~292 years are not distinguished *)
Definition representable_secs : Z := (2^63 - 1) / second.

Definition lifetime_lower (pol : policy) (hv : hview) (now : Z) : Z :=
  if force_default pol then default_age pol
  else match positive_max_ages (ref_tokens hv) with
       | [] => lifetime_else pol hv now
       | v :: vs => Z.min (list_min vs v) representable_secs * second
       end.
