(* Executable model of the relaying code of reservoir:
     proxy/requests.go           removeHopByHopHeaders, changeRequestToTarget
     proxy/responder/*.go        SetHeader / AddHeader / SetHeaders (header part, common to both responders)
     proxy/proxy.go              processRequest / handleRangeRequest / finalizeAndRespond seen as the
                                 script of responder calls one request produces
     proxy/cache_status_headers.go  addCacheHeaders (which fields it writes and how)
   and of the Go library functions they are built on, as finite byte tables:
     net/textproto CanonicalMIMEHeaderKey, strings.TrimSpace, strings.Split(",") ,
     net/url unescape / escape(encodePath) / validEncoded / setPath / EscapedPath / RequestURI.
   net/http's client and server (framing, redirects, gzip, default User-Agent) are an oracle, not modelled.
   Definitions only. *)
From Reservoir Require Import Base.Prelude.

(* ------------------------------------------------------------------------ *)
(* Literals *)
Definition s_Connection : str := [67;111;110;110;101;99;116;105;111;110].
Definition s_Proxy_Connection : str := [80;114;111;120;121;45;67;111;110;110;101;99;116;105;111;110].
Definition s_Keep_Alive : str := [75;101;101;112;45;65;108;105;118;101].
Definition s_Proxy_Authenticate : str := [80;114;111;120;121;45;65;117;116;104;101;110;116;105;99;97;116;101].
Definition s_Proxy_Authorization : str := [80;114;111;120;121;45;65;117;116;104;111;114;105;122;97;116;105;111;110].
Definition s_TE : str := [84;69].                       (* "TE", as written in requests.go *)
Definition s_Te : str := [84;101].                      (* its canonical form *)
Definition s_Trailer : str := [84;114;97;105;108;101;114].
Definition s_Transfer_Encoding : str := [84;114;97;110;115;102;101;114;45;69;110;99;111;100;105;110;103].
Definition s_Upgrade : str := [85;112;103;114;97;100;101].
Definition s_If_Modified_Since : str := [73;102;45;77;111;100;105;102;105;101;100;45;83;105;110;99;101].
Definition s_If_Unmodified_Since : str := [73;102;45;85;110;109;111;100;105;102;105;101;100;45;83;105;110;99;101].
Definition s_If_None_Match : str := [73;102;45;78;111;110;101;45;77;97;116;99;104].
Definition s_If_Match : str := [73;102;45;77;97;116;99;104].
Definition s_Accept_Ranges : str := [65;99;99;101;112;116;45;82;97;110;103;101;115].
Definition s_bytes : str := [98;121;116;101;115].
Definition s_Cache_Status : str := [67;97;99;104;101;45;83;116;97;116;117;115].
Definition s_X_Cache : str := [88;45;67;97;99;104;101].
Definition s_Via : str := [86;105;97].
Definition s_Age : str := [65;103;101].
Definition s_Content_Length : str := [67;111;110;116;101;110;116;45;76;101;110;103;116;104].
Definition s_Content_Range : str := [67;111;110;116;101;110;116;45;82;97;110;103;101].
Definition s_Content_Type : str := [67;111;110;116;101;110;116;45;84;121;112;101].
Definition s_X_Content_Type_Options : str := [88;45;67;111;110;116;101;110;116;45;84;121;112;101;45;79;112;116;105;111;110;115].
Definition s_ETag : str := [69;84;97;103].              (* "ETag", as written in proxy.go *)
Definition s_Etag : str := [69;116;97;103].             (* its canonical form *)
Definition s_Last_Modified : str := [76;97;115;116;45;77;111;100;105;102;105;101;100].
Definition s_MISS : str := [77;73;83;83].
Definition s_HIT : str := [72;73;84].
Definition s_REVALIDATED : str := [82;69;86;65;76;73;68;65;84;69;68].
Definition s_sp_reservoir : str := [32;114;101;115;101;114;118;111;105;114].   (* " reservoir" *)
Definition s_text_plain : str := [116;101;120;116;47;112;108;97;105;110;59;32;99;104;97;114;115;101;116;61;117;116;102;45;56].
Definition s_nosniff : str := [110;111;115;110;105;102;102].
Definition s_invalid_range : str := [105;110;118;97;108;105;100;32;82;97;110;103;101;32;104;101;97;100;101;114].  (* "invalid Range header" *)
Definition s_error_fetching : str := [69;114;114;111;114;32;102;101;116;99;104;105;110;103;32;114;101;115;111;117;114;99;101]. (* "Error fetching resource" *)

(* ------------------------------------------------------------------------ *)
(* net/textproto: CanonicalMIMEHeaderKey.  A key that contains a byte outside
   the token alphabet (including a blank) is returned unchanged. *)
Definition tchar_specials : list Z := [33;35;36;37;38;39;42;43;45;46;94;95;96;124;126].  (* !#$%&'*+-.^_`|~ *)
Definition valid_field_byte (c : Z) : bool :=
  is_digit c || is_upper c || is_lower c || existsb (Z.eqb c) tchar_specials.

Fixpoint canon_go (upper : bool) (s : str) : str :=
  match s with
  | [] => []
  | c :: r =>
      let c' := if upper then to_upper c else to_lower c in
      c' :: canon_go (c' =? 45) r
  end.

Definition canon_key (s : str) : str :=
  if forallb valid_field_byte s then canon_go true s else s.

(* ------------------------------------------------------------------------ *)
(* http.Header: a Go map from key to value list; modelled as an association
   list read through [hraw_get] (first binding), so no invariant is needed. *)
Definition hdrs := list (str * list str).

Fixpoint hraw_get (k : str) (h : hdrs) : list str :=
  match h with
  | [] => []
  | (k', vs) :: r => if str_eqb k k' then vs else hraw_get k r
  end.

Definition hraw_del (k : str) (h : hdrs) : hdrs :=
  filter (fun e => negb (str_eqb k (fst e))) h.

Definition hraw_put (k : str) (vs : list str) (h : hdrs) : hdrs :=
  match vs with
  | [] => hraw_del k h
  | _ => (k, vs) :: hraw_del k h
  end.

Definition hvalues (k : str) (h : hdrs) : list str := hraw_get (canon_key k) h.      (* Header.Values *)
Definition hget (k : str) (h : hdrs) : str :=                                       (* Header.Get *)
  match hvalues k h with v :: _ => v | [] => [] end.
Definition hdel (k : str) (h : hdrs) : hdrs := hraw_del (canon_key k) h.             (* Header.Del *)
Definition hset (k v : str) (h : hdrs) : hdrs := hraw_put (canon_key k) [v] h.       (* Header.Set *)
Definition hadd (k v : str) (h : hdrs) : hdrs :=                                    (* Header.Add *)
  hraw_put (canon_key k) (hraw_get (canon_key k) h ++ [v]) h.

Definition hkeys (h : hdrs) : list str := map fst h.

(* ------------------------------------------------------------------------ *)
(* strings.Split(v, ",") and strings.TrimSpace (Unicode White_Space, on UTF-8) *)
Fixpoint split_comma_acc (cur : str) (s : str) : list str :=
  match s with
  | [] => [rev cur]
  | c :: r => if c =? 44 then rev cur :: split_comma_acc [] r else split_comma_acc (c :: cur) r
  end.
Definition split_comma (s : str) : list str := split_comma_acc [] s.

Definition ascii_space (c : Z) : bool :=
  (c =? 32) || (c =? 9) || (c =? 10) || (c =? 11) || (c =? 12) || (c =? 13).
(* U+0085, U+00A0 *)
Definition space2 (a b : Z) : bool := (a =? 194) && ((b =? 133) || (b =? 160)).
(* U+1680, U+2000-200A, U+2028, U+2029, U+202F, U+205F, U+3000 *)
Definition space3 (a b c : Z) : bool :=
  ((a =? 225) && (b =? 154) && (c =? 128)) ||
  ((a =? 226) && (b =? 128) && (((128 <=? c) && (c <=? 138)) || (c =? 168) || (c =? 169) || (c =? 175))) ||
  ((a =? 226) && (b =? 129) && (c =? 159)) ||
  ((a =? 227) && (b =? 128) && (c =? 128)).

Fixpoint trim_left (s : str) : str :=
  match s with
  | [] => []
  | a :: r =>
      if ascii_space a then trim_left r
      else match r with
           | b :: r2 =>
               if space2 a b then trim_left r2
               else match r2 with
                    | c :: r3 => if space3 a b c then trim_left r3 else s
                    | [] => s
                    end
           | [] => s
           end
  end.

(* the same on the reversed string: the last byte comes first *)
Fixpoint trim_left_rev (s : str) : str :=
  match s with
  | [] => []
  | a :: r =>
      if ascii_space a then trim_left_rev r
      else match r with
           | b :: r2 =>
               if space2 b a then trim_left_rev r2
               else match r2 with
                    | c :: r3 => if space3 c b a then trim_left_rev r3 else s
                    | [] => s
                    end
           | [] => s
           end
  end.

Definition trim_space (s : str) : str := rev (trim_left_rev (rev (trim_left s))).

(* ------------------------------------------------------------------------ *)
(* proxy/requests.go: removeHopByHopHeaders *)
Definition hop_headers : list str :=
  [s_Connection; s_Proxy_Connection; s_Keep_Alive; s_Proxy_Authenticate; s_Proxy_Authorization;
   s_TE; s_Trailer; s_Transfer_Encoding; s_Upgrade].

(* the tokens of every Connection value, trimmed and canonicalised, empty ones skipped;
   computed from the header before anything is deleted, as the Go range expression is *)
Definition connection_tokens (h : hdrs) : list str :=
  filter (fun t => negb (str_eqb t []))
         (map (fun raw => canon_key (trim_space raw)) (flat_map split_comma (hvalues s_Connection h))).

Definition remove_hop_by_hop (h : hdrs) : hdrs :=
  let h1 := fold_left (fun h t => hdel t h) (connection_tokens h) h in
  fold_left (fun h n => hdel n h) hop_headers h1.

(* ------------------------------------------------------------------------ *)
(* Responder calls.  Both responders keep an http.Header and implement
   SetHeader = Header.Set, AddHeader = Header.Add, and (after the fix)
   SetHeaders = for every field: Del, then Add each value in order. *)
Definition set_headers (src dst : hdrs) : hdrs :=
  fold_left (fun d e => fold_left (fun d v => hadd (fst e) v d) (snd e) (hdel (fst e) d)) src dst.

Inductive rop :=
| RSet (k v : str)
| RAdd (k v : str)
| RSetAll (h : hdrs)
| RWrite (status : Z) (body : str)
| RWriteError (msg : str) (code : Z).

Definition hdr_op (h : hdrs) (o : rop) : hdrs :=
  match o with
  | RSet k v => hset k v h
  | RAdd k v => hadd k v h
  | RSetAll src => set_headers src h
  | RWrite _ _ => h
  | RWriteError _ _ => h
  end.

(* ------------------------------------------------------------------------ *)
(* The script of responder calls handleHTTP issues for one request, by the
   branch processRequest takes.  Which branch is taken (cache logic, origin
   behaviour) and the time-dependent strings (Cache-Status with its ttl, Age,
   the formatted Last-Modified) are inputs. *)
Inductive hit := HMiss | HRevalidated | HHit.

Definition xcache_of (h : hit) : str :=
  match h with HMiss => s_MISS | HRevalidated => s_REVALIDATED | HHit => s_HIT end.

Inductive xkind :=
| KDirect (status : Z) (origin : hdrs) (cs : str)                  (* relayed: fetchTypeDirect *)
| KStored (h : hit) (origin : hdrs) (etag lm cs age : str)         (* served from the store with 200 *)
| KPartial (origin : hdrs) (etag lm cr clen : str) (section : str) (* 206 from the store *)
| KRefuse (cr : str)                                               (* 416 *)
| KBadGateway.                                                     (* upstream failed: 502 *)

(* what net/http's Response.Write distinguishes: HEAD; POST/PUT/PATCH; every other method (or no request) *)
Inductive mclass := MPlain | MHead | MPost.

Record exchange := {
  x_meth : mclass;    (* class of the request method *)
  x_proto : str;      (* req.Proto, e.g. HTTP/1.1 *)
  x_kind : xkind;
  x_body : str        (* body offered to the responder (origin body / stored body) *)
}.

Definition cache_header_ops (proto : str) (h : hit) (cs : str) : list rop :=
  [RAdd s_Cache_Status cs; RAdd s_X_Cache (xcache_of h); RAdd s_Via (proto ++ s_sp_reservoir)].

Definition x_head (x : exchange) : bool := match x_meth x with MHead => true | _ => false end.

(* finalizeAndRespond: a HEAD request gets http.NoBody *)
Definition final_body (x : exchange) (b : str) : str := if x_head x then [] else b.

Definition exchange_ops (x : exchange) : list rop :=
  match x_kind x with
  | KDirect status origin cs =>
      [RSetAll (remove_hop_by_hop origin)] ++
      (if (200 <=? status) && (status <? 300)
       then RSet s_Accept_Ranges s_bytes :: cache_header_ops (x_proto x) HMiss cs else []) ++
      [RWrite status (final_body x (x_body x))]
  | KStored h origin etag lm cs age =>
      [RSetAll (remove_hop_by_hop origin); RSet s_Accept_Ranges s_bytes; RSet s_ETag etag; RSet s_Last_Modified lm] ++
      cache_header_ops (x_proto x) h cs ++
      (match h with HMiss => [] | _ => [RSet s_Age age] end) ++
      [RWrite 200 (final_body x (x_body x))]
  | KPartial origin etag lm cr clen section =>
      [RSetAll (remove_hop_by_hop origin); RSet s_Accept_Ranges s_bytes; RSet s_Content_Range cr;
       RSet s_Content_Length clen; RSet s_ETag etag; RSet s_Last_Modified lm;
       RWrite 206 (final_body x section)]
  | KRefuse cr =>
      [RSet s_Accept_Ranges s_bytes; RSet s_Content_Range cr; RWriteError s_invalid_range 416]
  | KBadGateway =>
      [RWriteError s_error_fetching 502]
  end.

(* header map a responder holds when the final write happens, starting from an empty one *)
Definition response_headers (x : exchange) : hdrs := fold_left hdr_op (exchange_ops x) [].

Definition response_status (x : exchange) : Z :=
  match x_kind x with
  | KDirect status _ _ => status
  | KStored _ _ _ _ _ _ => 200
  | KPartial _ _ _ _ _ _ => 206
  | KRefuse _ => 416
  | KBadGateway => 502
  end.

(* ------------------------------------------------------------------------ *)
(* net/url, mode encodePath *)
Definition is_hex (c : Z) : bool := is_digit c || ((97 <=? c) && (c <=? 102)) || ((65 <=? c) && (c <=? 70)).
Definition unhex (c : Z) : Z :=
  if is_digit c then c - 48 else if (97 <=? c) && (c <=? 102) then c - 97 + 10 else c - 65 + 10.
Definition upperhex (n : Z) : Z := if n <? 10 then 48 + n else 65 + n - 10.

(* shouldEscape(c, encodePath) = false exactly for alphanumerics and  $ & + , - . / : ; = @ _ ~ *)
Definition path_safe : list Z := [36;38;43;44;45;46;47;58;59;61;64;95;126].
Definition should_escape_path (c : Z) : bool :=
  negb (is_digit c || is_upper c || is_lower c || existsb (Z.eqb c) path_safe).

Fixpoint unescape_path (s : str) : option str :=
  match s with
  | [] => Some []
  | c :: r =>
      if c =? 37 then
        match r with
        | a :: b :: r2 =>
            if is_hex a && is_hex b then
              match unescape_path r2 with
              | Some t => Some ((unhex a * 16 + unhex b) :: t)
              | None => None
              end
            else None
        | _ => None
        end
      else match unescape_path r with
           | Some t => Some (c :: t)
           | None => None
           end
  end.

Definition escape_byte (c : Z) : str :=
  if should_escape_path c then [37; upperhex (c / 16); upperhex (c mod 16)] else [c].
Definition escape_path (s : str) : str := flat_map escape_byte s.

(* validEncoded(s, encodePath) *)
Definition valid_extra : list Z := [33;36;38;39;40;41;42;43;44;59;61;58;64;91;93;37].  (* !$&'()*+,;=:@[]% *)
Definition valid_encoded (s : str) : bool :=
  forallb (fun c => existsb (Z.eqb c) valid_extra || negb (should_escape_path c)) s.

(* URL.setPath: (Path, RawPath) *)
Definition set_path (p : str) : option (str * str) :=
  match unescape_path p with
  | None => None
  | Some path => Some (path, if str_eqb (escape_path path) p then [] else p)
  end.

(* URL.EscapedPath *)
Definition escaped_path (path raw : str) : str :=
  if negb (str_eqb raw []) && valid_encoded raw &&
     match unescape_path raw with Some p => str_eqb p path | None => false end
  then raw
  else if str_eqb path [42] then [42]
  else escape_path path.

(* URL.RequestURI for a URL without Opaque *)
Definition request_uri (path raw query : str) (force_query : bool) : str :=
  let r := escaped_path path raw in
  let r := match r with [] => [47] | _ => r end in
  if force_query || negb (str_eqb query []) then r ++ [63] ++ query else r.

(* proxy/requests.go: changeRequestToTarget builds a new URL from the host and
   copies Path, RawPath (since the fix), RawQuery and Fragment; ForceQuery is not
   copied.  [host_ok] = url.Parse("http://"+Host) succeeded (library oracle). *)
Record in_url := { u_path : str; u_raw : str; u_query : str; u_force : bool }.

Definition change_request_to_target (host_ok : bool) (u : in_url) : res str :=
  if host_ok then Ok (request_uri (u_path u) (u_raw u) (u_query u) false) else Err.

(* the request target the origin sees for the raw path and query a client sent *)
Definition forwarded_target (p query : str) : option str :=
  match set_path p with
  | None => None
  | Some (path, raw) => Some (request_uri path raw query false)
  end.

(* ------------------------------------------------------------------------ *)
(* The request as it leaves the proxy.  Method, body and query are handed to
   net/http unchanged; the header map is the client's after the cache layer
   consumed the conditionals it parsed (proxy/headers, by name here) and after
   removeHopByHopHeaders. *)
Definition conditional_names : list str :=
  [s_If_Modified_Since; s_If_Unmodified_Since; s_If_None_Match; s_If_Match].

Record creq := { c_method : str; c_rawpath : str; c_query : str; c_hdrs : hdrs; c_body : str }.
Record ureq := { q_method : str; q_target : str; q_hdrs : hdrs; q_body : str }.

Definition strip_conditionals (h : hdrs) : hdrs := fold_left (fun h n => hdel n h) conditional_names h.

(* handleHTTP consumes the client's conditionals only for the methods the cache may answer (fix bd24877: they used
   to be removed from every request, also from writes, whose If-Match is the client's lost-update protection). *)
Definition s_GET : str := [71;69;84].
Definition s_HEAD : str := [72;69;65;68].
Definition cache_answers (m : str) : bool := str_eqb m s_GET || str_eqb m s_HEAD.
Definition after_cache_layer (r : creq) : hdrs :=
  if cache_answers (c_method r) then strip_conditionals (c_hdrs r) else c_hdrs r.

Definition relay_request (r : creq) : option ureq :=
  match forwarded_target (c_rawpath r) (c_query r) with
  | None => None
  | Some t => Some {| q_method := c_method r; q_target := t;
                      q_hdrs := remove_hop_by_hop (after_cache_layer r);
                      q_body := c_body r |}
  end.
