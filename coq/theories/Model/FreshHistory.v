(* Per-resource history model for C03 / C04: what the proxy does with ONE cache key
   (one GET resource) over a whole request history.

     state  = cache policy, clock, optional stored entry (version, store time, expiry, stored Age)
     steps  = Advance d | SetPolicy p | Request meth origin-answer r304
     output = one event per request: the client response (status, body version, X-Cache,
              Cache-Status, Age), whether the origin was contacted, what happened to the entry

   It mirrors proxy/fetcher.go (dedupFetch, getFromCacheOrFetch, fetchUpstream,
   handleUpstreamResponse / 200 / 304, fetchDirectlyFromUpstream), the fresh/stale test of
   cache.Get (Stale := Expires.Before(now)) and the response assembly of
   proxy/proxy.go processRequest, for sequential requests without Range or client
   conditionals.  The origin is an oracle: every Request step carries the answer the
   origin gives to an unconditional request at that moment ([oa]) and whether it
   answers a conditional (revalidation) request with 304 ([r304]).

   Kept deliberately small: revalidation is modelled only as far as C03/C04 need it
   (stale => origin contacted; 304 renews by the default lifetime; 200 replaces).
   The full proxy_step of C06/C09 (validators, faults) extends [get_step]. *)
From Reservoir Require Import Base.Prelude Base.Strings Model.Freshness.

Record oanswer := {
  oa_status : Z;
  oa_hv : hview;             (* Cache-Control / Expires of the answer *)
  oa_version : Z;            (* which body the origin serves *)
  oa_age : option Z          (* Age field of the answer (strconv.Atoi), None = absent *)
}.

Record entry := {
  e_version : Z;
  e_stored_at : Z;           (* EntryMetadata.TimeWritten *)
  e_expires : Z;             (* EntryMetadata.Expires *)
  e_age : option Z           (* Age field of the stored header set *)
}.

Record hstate := {
  hs_pol : policy;
  hs_now : Z;
  hs_entry : option entry
}.

Inductive hstep :=
| Advance (d : Z)
| SetPolicy (p : policy)
| Request (m : meth) (oa : oanswer) (r304 : bool).

Record response := {
  r_status : Z;
  r_version : Z;                      (* version of the representation served; -1 for a proxy error page *)
  r_label : option hit_status;        (* X-Cache, None = field absent *)
  r_cs : option cache_status;         (* Cache-Status *)
  r_age : option Z;                   (* Age *)
  r_contacted : bool                  (* the origin received at least one request *)
}.

Inductive effect := ENone | EStored | ERenewed.

Record event := {
  ev_pol : policy;
  ev_now : Z;
  ev_meth : meth;
  ev_oa : oanswer;
  ev_r304 : bool;
  ev_resp : response;
  ev_effect : effect                  (* what the request did to the stored entry *)
}.

(* cache.Get: Stale := Expires.Before(time.Now()) *)
Definition fresh (e : entry) (now : Z) : bool := negb (e_expires e <? now).

(* getCurrentAge on the stored header set; the origin's Date is the instant of the fetch *)
Definition entry_age (e : entry) (now : Z) : Z :=
  current_age (Some (e_stored_at e)) (e_age e) (e_stored_at e) now.

(* processRequest, fetchTypeCached: 200, stored headers, labels *)
Definition serve_entry (hs : hit_status) (upstream_status : Z) (e : entry) (now : Z) (contacted : bool) : response :=
  {| r_status := 200;
     r_version := e_version e;
     r_label := Some hs;
     r_cs := Some (make_cache_status hs upstream_status true (e_expires e) now);
     r_age := match hs with
              | HsMiss => e_age e                    (* the origin's own Age field passes through *)
              | _ => Some (entry_age e now)
              end;
     r_contacted := contacted |}.

Definition is_2xx (s : Z) : bool := (200 <=? s) && (s <? 300).

(* processRequest, fetchTypeDirect: the upstream response is relayed; labels only on 2xx *)
Definition relay (oa : oanswer) : response :=
  {| r_status := oa_status oa;
     r_version := oa_version oa;
     r_label := if is_2xx (oa_status oa) then Some HsMiss else None;
     r_cs := if is_2xx (oa_status oa) then Some (make_cache_status HsMiss (oa_status oa) false 0 0) else None;
     r_age := oa_age oa;
     r_contacted := true |}.

Definition new_entry (pol : policy) (now : Z) (oa : oanswer) : entry :=
  {| e_version := oa_version oa;
     e_stored_at := now;
     e_expires := store_expiry pol (oa_hv oa) now;
     e_age := oa_age oa |}.

Definition renew (e : entry) (exp : Z) : entry :=
  {| e_version := e_version e; e_stored_at := e_stored_at e; e_expires := exp; e_age := e_age e |}.

(* fetchUpstream + handleUpstreamResponse on the full answer [oa] (not a 304) *)
Definition full_answer (pol : policy) (now : Z) (st : option entry) (hs : hit_status) (oa : oanswer)
  : option entry * response * effect :=
  if storable pol GET (oa_status oa) (oa_hv oa) now then
    let e := new_entry pol now oa in
    (Some e, serve_entry hs 200 e now true, EStored)
  else
    (* not cacheable: ErrNotCacheable, the request is repeated with fetchDirectlyFromUpstream *)
    (st, relay oa, ENone).

(* dedupFetch / getFromCacheOrFetch for a GET without Range *)
Definition get_step (pol : policy) (now : Z) (st : option entry) (oa : oanswer) (r304 : bool)
  : option entry * response * effect :=
  match st with
  | Some e =>
      if fresh e now then (st, serve_entry HsHit 0 e now false, ENone)
      else if r304 || (oa_status oa =? 304) then
        (* handleUpstream304: Expires := now + default_max_age *)
        let e' := renew e (now + default_age pol) in
        (Some e', serve_entry HsRevalidated 304 e' now true, ERenewed)
      else full_answer pol now st HsRevalidated oa
  | None =>
      (* (a 304 without an entry to refresh takes the ErrNotCacheable route like any answer that is
         not stored - C09's repair: the origin's answer to the repeated request is relayed) *)
      full_answer pol now None HsMiss oa
  end.

(* any other method: straight to the origin, never stored (the cache key contains the method) *)
Definition other_step (st : option entry) (oa : oanswer) : option entry * response * effect :=
  (st, relay oa, ENone).

Definition step (s : hstate) (x : hstep) : hstate * option event :=
  match x with
  | Advance d => ({| hs_pol := hs_pol s; hs_now := hs_now s + d; hs_entry := hs_entry s |}, None)
  | SetPolicy p => ({| hs_pol := p; hs_now := hs_now s; hs_entry := hs_entry s |}, None)
  | Request m oa r304 =>
      let '(st', resp, eff) :=
        if is_get m then get_step (hs_pol s) (hs_now s) (hs_entry s) oa r304
        else other_step (hs_entry s) oa in
      ({| hs_pol := hs_pol s; hs_now := hs_now s; hs_entry := st' |},
       Some {| ev_pol := hs_pol s; ev_now := hs_now s; ev_meth := m; ev_oa := oa; ev_r304 := r304;
               ev_resp := resp; ev_effect := eff |})
  end.

(* the events of a history, oldest first, and the final state *)
Fixpoint run (s : hstate) (h : list hstep) : list event * hstate :=
  match h with
  | [] => ([], s)
  | x :: h' =>
      let '(s1, oev) := step s x in
      let '(evs, s2) := run s1 h' in
      (match oev with Some ev => ev :: evs | None => evs end, s2)
  end.

Definition events (s : hstate) (h : list hstep) : list event := fst (run s h).

Definition init_state (pol : policy) (now : Z) : hstate :=
  {| hs_pol := pol; hs_now := now; hs_entry := None |}.
