(* Executable model of cache/memory_cache.go and cache/file_cache.go.

   Granularity.  Get / Delete / UpdateMetadata run entirely under the key's
   shard lock and are one action each.  Cache() also holds the shard lock for
   its whole duration, but readers of already opened handles take no lock, so
   a store is split into the points at which such a reader can observe it:
     ABegin  (memory: limit check / eviction; file: eviction, create <hex>.tmp)
     AWrite  (one chunk of the source copied into the buffer / the temp file)
     AAbort  (the source returned an error: drop the buffer / remove the temp file)
     ACommit (the source is exhausted: publish the entry, move the counters)
   While a store is pending on a key every other action on that key is blocked
   by the lock ([RBusy], state unchanged; the janitor's TryLock skips the key).
   A list of actions is therefore an interleaving of any number of clients,
   janitor cycles and lock-free readers.

   The janitor's eviction ORDER (cache_janitor.go, evict) is not modelled here:
   [AEvict ks] and the [ev] argument of [ABegin] remove a given key set, i.e.
   the outcome of an eviction is an input of the model.

   File backend: an explicit POSIX fragment.  [s_fs] is the directory
   (name -> inode), [s_ino] the inode table (inode -> bytes), a handle is an
   open descriptor (inode, offset) plus the metadata object obtained with it.
   Unlinking or renaming over a name does not touch the inode an open
   descriptor refers to.  Names: <hex of key k> = 2k, <hex of key k>.tmp = 2k+1.

   Time is a number of seconds [s_now]; expiry instants are absolute. *)
From Reservoir Require Import Base.Prelude Base.Amap.

Inductive backend := Mem | File.

Definition backend_eqb (a b : backend) : bool :=
  match a, b with Mem, Mem => true | File, File => true | _, _ => false end.

(* entries map of MemoryCache / entriesMetadata map of FileCache.
   e_data is the stored slice (memory backend only; [] for the file backend). *)
Record ent := { e_data : list Z; e_size : Z; e_exp : Z; e_obj : Z }.

(* a store in progress (holds the key's shard lock) *)
Record wr := { w_buf : list Z;   (* memory: bytes.Buffer *)
               w_ino : Z;        (* file: inode of <hex>.tmp *)
               w_exp : Z; w_obj : Z }.

(* Entry.Data + the fields of Entry.Metadata a responder uses with it *)
Inductive hdl :=
| HMem (data : list Z) (off size obj : Z)
| HFile (i : Z) (off size obj : Z).

Record st := {
  s_ents : list (Z * ent);
  s_wr : list (Z * wr);
  s_fs : list (Z * Z);
  s_ino : list (Z * list Z);
  s_hs : list (Z * hdl);
  s_bs : Z;      (* byteSize *)
  s_mb : Z;      (* metrics.Global.Cache.BytesCached *)
  s_me : Z;      (* metrics.Global.Cache.CacheEntries *)
  s_nh : Z;      (* next handle id *)
  s_ni : Z;      (* next inode number *)
  s_now : Z
}.

Definition init : st :=
  {| s_ents := []; s_wr := []; s_fs := []; s_ino := []; s_hs := [];
     s_bs := 0; s_mb := 0; s_me := 0; s_nh := 0; s_ni := 0; s_now := 0 |}.

Definition set_ents s v := {| s_ents := v; s_wr := s_wr s; s_fs := s_fs s; s_ino := s_ino s; s_hs := s_hs s;
  s_bs := s_bs s; s_mb := s_mb s; s_me := s_me s; s_nh := s_nh s; s_ni := s_ni s; s_now := s_now s |}.
Definition set_wr s v := {| s_ents := s_ents s; s_wr := v; s_fs := s_fs s; s_ino := s_ino s; s_hs := s_hs s;
  s_bs := s_bs s; s_mb := s_mb s; s_me := s_me s; s_nh := s_nh s; s_ni := s_ni s; s_now := s_now s |}.
Definition set_fs s v := {| s_ents := s_ents s; s_wr := s_wr s; s_fs := v; s_ino := s_ino s; s_hs := s_hs s;
  s_bs := s_bs s; s_mb := s_mb s; s_me := s_me s; s_nh := s_nh s; s_ni := s_ni s; s_now := s_now s |}.
Definition set_ino s v := {| s_ents := s_ents s; s_wr := s_wr s; s_fs := s_fs s; s_ino := v; s_hs := s_hs s;
  s_bs := s_bs s; s_mb := s_mb s; s_me := s_me s; s_nh := s_nh s; s_ni := s_ni s; s_now := s_now s |}.
Definition set_hs s v := {| s_ents := s_ents s; s_wr := s_wr s; s_fs := s_fs s; s_ino := s_ino s; s_hs := v;
  s_bs := s_bs s; s_mb := s_mb s; s_me := s_me s; s_nh := s_nh s; s_ni := s_ni s; s_now := s_now s |}.
(* addCacheSize / decrementCacheSize: byteSize and the metric move together *)
Definition add_size s d := {| s_ents := s_ents s; s_wr := s_wr s; s_fs := s_fs s; s_ino := s_ino s; s_hs := s_hs s;
  s_bs := s_bs s + d; s_mb := s_mb s + d; s_me := s_me s; s_nh := s_nh s; s_ni := s_ni s; s_now := s_now s |}.
(* incrementCacheEntries / decrementCacheEntries *)
Definition add_count s d := {| s_ents := s_ents s; s_wr := s_wr s; s_fs := s_fs s; s_ino := s_ino s; s_hs := s_hs s;
  s_bs := s_bs s; s_mb := s_mb s; s_me := s_me s + d; s_nh := s_nh s; s_ni := s_ni s; s_now := s_now s |}.
(* janitor: metrics.Global.Cache.BytesCached.Set(getCacheSize()) *)
Definition publish s := {| s_ents := s_ents s; s_wr := s_wr s; s_fs := s_fs s; s_ino := s_ino s; s_hs := s_hs s;
  s_bs := s_bs s; s_mb := s_bs s; s_me := s_me s; s_nh := s_nh s; s_ni := s_ni s; s_now := s_now s |}.
Definition set_nh s v := {| s_ents := s_ents s; s_wr := s_wr s; s_fs := s_fs s; s_ino := s_ino s; s_hs := s_hs s;
  s_bs := s_bs s; s_mb := s_mb s; s_me := s_me s; s_nh := v; s_ni := s_ni s; s_now := s_now s |}.
Definition set_ni s v := {| s_ents := s_ents s; s_wr := s_wr s; s_fs := s_fs s; s_ino := s_ino s; s_hs := s_hs s;
  s_bs := s_bs s; s_mb := s_mb s; s_me := s_me s; s_nh := s_nh s; s_ni := v; s_now := s_now s |}.
Definition set_now s v := {| s_ents := s_ents s; s_wr := s_wr s; s_fs := s_fs s; s_ino := s_ino s; s_hs := s_hs s;
  s_bs := s_bs s; s_mb := s_mb s; s_me := s_me s; s_nh := s_nh s; s_ni := s_ni s; s_now := v |}.

(* directory names *)
Definition nkey (k : Z) : Z := 2 * k.
Definition ntmp (k : Z) : Z := 2 * k + 1.

Definition inode_bytes (s : st) (i : Z) : list Z :=
  match aget i (s_ino s) with Some d => d | None => [] end.

Definition pending (s : st) (k : Z) : bool := ahas k (s_wr s).

(* ---- actions and their results ---- *)
Inductive act :=
| ABegin (k exp obj : Z) (ev : list Z)   (* Cache(k, src, now+exp, obj) up to the first src.Read; ev = what an eviction triggered here removed *)
| AWrite (k : Z) (chunk : list Z)
| AAbort (k : Z)
| ACommit (k : Z)
| AGet (k : Z)
| ARead (h n : Z)
| AClose (h : Z)
| ADelete (k : Z)
| AUpdate (k exp : Z)                    (* UpdateMetadata(k, meta.Expires = now+exp) *)
| AAdvance (d : Z)
| ACleanup (skip : list Z)               (* cleanExpiredEntries; skip = keys whose shard lock somebody else holds *)
| AEvict (ks : list Z)                   (* evict(): the set it removed *)
| AReopen.                               (* process restart: new cache instance over the same directory *)

Inductive out :=
| RUnit
| RErr
| RMiss
| RBusy
| RBadHandle
| RHandle (h size obj : Z) (stale : bool)
| RBytes (data : list Z) (size obj : Z).

(* ---- removal of an entry: deleteInternal (memory) / ensureRemove (file) ---- *)
Definition remove_entry (b : backend) (s : st) (k : Z) : st * bool :=
  match b with
  | Mem =>
      match aget k (s_ents s) with
      | None => (s, false)                                   (* ErrCacheEntryNotFound *)
      | Some e => (add_size (add_count (set_ents s (adel k (s_ents s))) (-1)) (- e_size e), true)
      end
  | File =>
      match aget (nkey k) (s_fs s) with
      | None => (set_ents s (adel k (s_ents s)), true)       (* stat: not exist -> nil, then delete(entriesMetadata,key) *)
      | Some i =>
          let sz := zlen (inode_bytes s i) in                (* stat.Size() *)
          let s1 := set_fs s (adel (nkey k) (s_fs s)) in     (* os.Remove *)
          let s2 := add_size (add_count s1 (-1)) (- sz) in
          (set_ents s2 (adel k (s_ents s2)), true)
      end
  end.

(* janitor: TryLock, removeEntry, Unlock *)
Definition try_remove (b : backend) (s : st) (k : Z) : st :=
  if pending s k then s else fst (remove_entry b s k).

Definition remove_all (b : backend) (s : st) (ks : list Z) : st :=
  fold_left (try_remove b) ks s.

Definition evict_set (b : backend) (s : st) (ks : list Z) : st := publish (remove_all b s ks).

Definition expired_keys (s : st) : list Z :=
  map fst (filter (fun ke => e_exp (snd ke) <? s_now s) (s_ents s)).

Definition memb (k : Z) (l : list Z) : bool := existsb (Z.eqb k) l.

(* ---- the store ---- *)
Definition do_begin (b : backend) (lim : Z) (s : st) (k exp obj : Z) (ev : list Z) : st * out :=
  if pending s k then (s, RBusy) else
  match b with
  | Mem =>
      (* cacheInternal: if byteSize >= limit { evict; if byteSize >= limit -> ErrCacheMemoryExceeded } *)
      let full := lim <=? s_bs s in
      (* the caller holds k's shard lock: the janitor's TryLock on k fails *)
      let s1 := if full then evict_set b s (filter (fun x => negb (x =? k)) ev) else s in
      if full && (lim <=? s_bs s1) then (s1, RErr)
      else (set_wr s1 (aset k {| w_buf := []; w_ino := 0; w_exp := s_now s + exp; w_obj := obj |} (s_wr s1)), RUnit)
  | File =>
      (* Cache: eviction before the lock is taken, never refuses *)
      let s1 := if lim <=? s_bs s then evict_set b s ev else s in
      (* os.Create(<hex>.tmp): O_CREAT|O_TRUNC *)
      let '(s2, i) :=
        match aget (ntmp k) (s_fs s1) with
        | Some i => (set_ino s1 (aset i [] (s_ino s1)), i)
        | None =>
            let i := s_ni s1 in
            (set_ni (set_ino (set_fs s1 (aset (ntmp k) i (s_fs s1))) (aset i [] (s_ino s1))) (i + 1), i)
        end in
      (set_wr s2 (aset k {| w_buf := []; w_ino := i; w_exp := s_now s + exp; w_obj := obj |} (s_wr s2)), RUnit)
  end.

Definition do_write (b : backend) (s : st) (k : Z) (c : list Z) : st * out :=
  match aget k (s_wr s) with
  | None => (s, RBusy)
  | Some w =>
      match b with
      | Mem => (set_wr s (aset k {| w_buf := w_buf w ++ c; w_ino := w_ino w; w_exp := w_exp w; w_obj := w_obj w |} (s_wr s)), RUnit)
      | File => (set_ino s (aset (w_ino w) (inode_bytes s (w_ino w) ++ c) (s_ino s)), RUnit)
      end
  end.

Definition do_abort (b : backend) (s : st) (k : Z) : st * out :=
  match aget k (s_wr s) with
  | None => (s, RBusy)
  | Some w =>
      let s1 := set_wr s (adel k (s_wr s)) in
      match b with
      | Mem => (s1, RErr)
      | File => (set_fs s1 (adel (ntmp k) (s_fs s1)), RErr)    (* file.Close(); os.Remove(tmp) *)
      end
  end.

(* counters on publication of a new entry for k: the replaced entry (if any) leaves the accounting *)
Definition account_store (s : st) (old : option ent) (size : Z) : st :=
  match old with
  | Some o => add_size s (size - e_size o)
  | None => add_size (add_count s 1) size
  end.

Definition open_handle (s : st) (h : hdl) : st * Z :=
  (set_nh (set_hs s (aset (s_nh s) h (s_hs s))) (s_nh s + 1), s_nh s).

Definition do_commit (b : backend) (s : st) (k : Z) : st * out :=
  match aget k (s_wr s) with
  | None => (s, RBusy)
  | Some w =>
      let s1 := set_wr s (adel k (s_wr s)) in
      match b with
      | Mem =>
          let data := w_buf w in
          let size := zlen data in
          let old := aget k (s_ents s1) in
          let s2 := set_ents s1 (aset k {| e_data := data; e_size := size; e_exp := w_exp w; e_obj := w_obj w |} (s_ents s1)) in
          let s3 := account_store s2 old size in
          let '(s4, h) := open_handle s3 (HMem data 0 size (w_obj w)) in
          (s4, RHandle h size (w_obj w) false)
      | File =>
          let size := zlen (inode_bytes s (w_ino w)) in
          if size =? 0 then (set_fs s1 (adel (ntmp k) (s_fs s1)), RErr)      (* ErrCacheFileEmpty: remove the temp file *)
          else
            (* os.Rename(<hex>.tmp, <hex>) *)
            let s2 := set_fs s1 (aset (nkey k) (w_ino w) (adel (ntmp k) (s_fs s1))) in
            let old := aget k (s_ents s2) in
            let s3 := set_ents s2 (aset k {| e_data := []; e_size := size; e_exp := w_exp w; e_obj := w_obj w |} (s_ents s2)) in
            let s4 := account_store s3 old size in
            let '(s5, h) := open_handle s4 (HFile (w_ino w) 0 size (w_obj w)) in
            (s5, RHandle h size (w_obj w) false)
      end
  end.

(* ---- Get / reads ---- *)
Definition do_get (b : backend) (s : st) (k : Z) : st * out :=
  if pending s k then (s, RBusy) else
  match aget k (s_ents s) with
  | None => (s, RMiss)
  | Some e =>
      let stale := e_exp e <? s_now s in
      match b with
      | Mem =>
          let '(s1, h) := open_handle s (HMem (e_data e) 0 (e_size e) (e_obj e)) in
          (s1, RHandle h (e_size e) (e_obj e) stale)
      | File =>
          match aget (nkey k) (s_fs s) with
          | None => (s, RErr)                                   (* os.Open fails *)
          | Some i =>
              let '(s1, h) := open_handle s (HFile i 0 (e_size e) (e_obj e)) in
              (s1, RHandle h (e_size e) (e_obj e) stale)
          end
      end
  end.

Definition chunk_of (data : list Z) (off n : Z) : list Z := zfirstn n (zskipn off data).

Definition do_read (s : st) (h n : Z) : st * out :=
  match aget h (s_hs s) with
  | None => (s, RBadHandle)
  | Some (HMem data off size obj) =>
      let c := chunk_of data off n in
      (set_hs s (aset h (HMem data (off + zlen c) size obj) (s_hs s)), RBytes c size obj)
  | Some (HFile i off size obj) =>
      let c := chunk_of (inode_bytes s i) off n in
      (set_hs s (aset h (HFile i (off + zlen c) size obj) (s_hs s)), RBytes c size obj)
  end.

Definition do_close (b : backend) (s : st) (h : Z) : st * out :=
  match b with
  | Mem => (s, RUnit)                                           (* memoryReadSeekCloser.Close is a no-op *)
  | File => (set_hs s (adel h (s_hs s)), RUnit)
  end.

Definition do_delete (b : backend) (s : st) (k : Z) : st * out :=
  if pending s k then (s, RBusy) else
  let '(s1, ok) := remove_entry b s k in
  (s1, if ok then RUnit else RErr).

Definition do_update (s : st) (k exp : Z) : st * out :=
  if pending s k then (s, RBusy) else
  match aget k (s_ents s) with
  | None => (s, RErr)
  | Some e => (set_ents s (aset k {| e_data := e_data e; e_size := e_size e; e_exp := s_now s + exp; e_obj := e_obj e |} (s_ents s)), RUnit)
  end.

Definition do_cleanup (b : backend) (s : st) (skip : list Z) : st :=
  publish (remove_all b s (filter (fun k => negb (memb k skip)) (expired_keys s))).

(* a new process: empty maps, zero counters; for the file backend the
   constructor clears the directory (EnsureCleared).  Descriptors of the old
   process are gone. *)
Definition do_reopen (s : st) : st :=
  {| s_ents := []; s_wr := []; s_fs := []; s_ino := s_ino s; s_hs := [];
     s_bs := 0; s_mb := 0; s_me := 0; s_nh := s_nh s; s_ni := s_ni s; s_now := s_now s |}.

Definition step (b : backend) (lim : Z) (s : st) (a : act) : st * out :=
  match a with
  | ABegin k exp obj ev => do_begin b lim s k exp obj ev
  | AWrite k c => do_write b s k c
  | AAbort k => do_abort b s k
  | ACommit k => do_commit b s k
  | AGet k => do_get b s k
  | ARead h n => do_read s h n
  | AClose h => do_close b s h
  | ADelete k => do_delete b s k
  | AUpdate k exp => do_update s k exp
  | AAdvance d => (set_now s (s_now s + d), RUnit)
  | ACleanup skip => (do_cleanup b s skip, RUnit)
  | AEvict ks => (evict_set b s ks, RUnit)
  | AReopen => (do_reopen s, RUnit)
  end.

Definition run_from (b : backend) (lim : Z) (s : st) (l : list act) : st :=
  fold_left (fun s a => fst (step b lim s a)) l s.

Definition run (b : backend) (lim : Z) (l : list act) : st := run_from b lim init l.

(* outputs of a run, in order *)
Fixpoint outs_from (b : backend) (lim : Z) (s : st) (l : list act) : list out :=
  match l with
  | [] => []
  | a :: r => let '(s1, o) := step b lim s a in o :: outs_from b lim s1 r
  end.

(* ---- what the cache can actually return, and what is on disk ---- *)
Definition get_data (b : backend) (s : st) (k : Z) (e : ent) : option (list Z) :=
  match b with
  | Mem => Some (e_data e)
  | File => match aget (nkey k) (s_fs s) with
            | Some i => Some (inode_bytes s i)
            | None => None
            end
  end.

(* (key, bytes a Get + read-to-EOF yields, Metadata.Size, Metadata.Object) for every retrievable key *)
Definition retrievable (b : backend) (s : st) : list (Z * (list Z * Z * Z)) :=
  flat_map (fun ke => match get_data b s (fst ke) (snd ke) with
                      | Some d => [(fst ke, (d, e_size (snd ke), e_obj (snd ke)))]
                      | None => []
                      end) (s_ents s).

(* directory listing: (name, file size) *)
Definition dir_listing (s : st) : list (Z * Z) :=
  map (fun ni => (fst ni, zlen (inode_bytes s (snd ni)))) (s_fs s).

(* no store in progress *)
Definition quiescent (s : st) : bool := match s_wr s with [] => true | _ => false end.

(* the current version of a key: what a Get issued now would deliver *)
Definition current (b : backend) (s : st) (k : Z) : option (list Z * Z * Z) :=
  match aget k (s_ents s) with
  | None => None
  | Some e => match get_data b s k e with
              | Some d => Some (d, e_size e, e_obj e)
              | None => None
              end
  end.

(* what is still to be read through an open handle, with the metadata it carries *)
Definition hview (s : st) (h : Z) : option (list Z * Z * Z) :=
  match aget h (s_hs s) with
  | None => None
  | Some (HMem data off size obj) => Some (zskipn off data, size, obj)
  | Some (HFile i off size obj) => Some (zskipn off (inode_bytes s i), size, obj)
  end.

(* total number of bytes a client can actually get back *)
Definition sum_data (r : list (Z * (list Z * Z * Z))) : Z :=
  fold_right (fun x acc => zlen (fst (fst (snd x))) + acc) 0 r.

(* the body a store in progress has received so far, and the origin metadata it will carry *)
Definition pending_body (b : backend) (s : st) (k : Z) : option (list Z * Z) :=
  match aget k (s_wr s) with
  | None => None
  | Some w => Some (match b with Mem => w_buf w | File => inode_bytes s (w_ino w) end, w_obj w)
  end.

(* actions that end the life of handle h *)
Definition ends_handle (h : Z) (a : act) : bool :=
  match a with
  | AClose h' => h' =? h
  | AReopen => true
  | _ => false
  end.

Definition reads_handle (h : Z) (a : act) : bool :=
  match a with ARead h' _ => h' =? h | _ => false end.

(* chunks delivered through handle h in a run (actions with their results), and the bytes asked for *)
Fixpoint chunks_read (h : Z) (acts : list act) (outs : list out) : list (list Z) :=
  match acts, outs with
  | a :: ar, o :: orr =>
      (if reads_handle h a then match o with RBytes d _ _ => [d] | _ => [] end else []) ++ chunks_read h ar orr
  | _, _ => []
  end.

Fixpoint requested (h : Z) (acts : list act) : Z :=
  match acts with
  | [] => 0
  | a :: r => (match a with ARead h' n => if h' =? h then Z.max 0 n else 0 | _ => 0 end) + requested h r
  end.

(* every read through h reported the metadata (size, obj) *)
Fixpoint read_metas (h sz o : Z) (acts : list act) (outs : list out) : Prop :=
  match acts, outs with
  | a :: ar, x :: orr =>
      (reads_handle h a = true -> exists d, x = RBytes d sz o) /\ read_metas h sz o ar orr
  | _, _ => True
  end.

Definition keeps_handle (h : Z) (acts : list act) : bool := forallb (fun a => negb (ends_handle h a)) acts.

(* the version a handle-returning action opens *)
Definition opened_version (b : backend) (s : st) (a : act) : option (list Z * Z) :=
  match a with
  | AGet k => match current b s k with Some (d, _, o) => Some (d, o) | None => None end
  | ACommit k => pending_body b s k
  | _ => None
  end.

(* a store to k is completed somewhere in the list *)
Definition commits_key (k : Z) (a : act) : bool := match a with ACommit k' => k' =? k | _ => false end.
Definition no_commit (k : Z) (acts : list act) : bool := forallb (fun a => negb (commits_key k a)) acts.

(* the key an action addresses (None: handle-, clock- or janitor-level) *)
Definition key_of (a : act) : option Z :=
  match a with
  | ABegin k _ _ _ | AWrite k _ | AAbort k | ACommit k | AGet k | ADelete k | AUpdate k _ => Some k
  | _ => None
  end.

(* what the source of the store to k delivers during a list of actions *)
Fixpoint written_to (k : Z) (acts : list act) : list Z :=
  match acts with
  | [] => []
  | AWrite k' c :: r => (if k' =? k then c else []) ++ written_to k r
  | _ :: r => written_to k r
  end.

Definition ends_store (k : Z) (a : act) : bool :=
  match a with
  | AAbort k' | ACommit k' => k' =? k
  | AReopen => true
  | _ => false
  end.
